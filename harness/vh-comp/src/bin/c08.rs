//! C08 — register allocation never clobbers a live value. Two oracles on every function of the
//! corpus plus the register-pressure ladder: (1) hook H3's independent post-allocation checker
//! (fresh liveness; no definition may land in the machine register of a different live virtual
//! register, MOVE copies excepted; spill slots distinct), (2) the VM result equals the reference.
use serde_json::json;
use vh_comp::campaign::*;
use vh_comp::pool::Pool;
use vh_comp::worker::BuildSpec;

fn main() {
    let a = vhcore::parse_args();
    vh_comp::maybe_serve_worker(&a);
    let code = match a.cmd.as_str() {
        "check" => run(&a),
        "replay" => vh_comp::replay::replay_case(&a),
        _ => vhcore::machinery_failure("usage: c08 check C08 --tier quick|thorough"),
    };
    std::process::exit(code);
}

fn run(a: &vhcore::Args) -> i32 {
    let mut rep = vhcore::Reporter::from_args(a, "exploration");
    let thorough = a.tier == vhcore::Tier::Thorough;
    let mut cases: Vec<_> = vh_comp::spaces::corpus(thorough)
        .into_iter()
        .filter(|c| thorough || c.space != "S1")
        .collect();
    // the ladder is the heart of this check: all k in 1..=64 in both tiers
    cases.retain(|c| c.space != "ladder");
    for shape in vh_comp::spaces::LADDER_SHAPES {
        for k in 1..=64usize {
            if thorough || k % 4 == 0 || (40..=56).contains(&k) || k == 1 {
                cases.push(vh_comp::spaces::ladder(shape, k));
            }
        }
    }
    let pool = Pool::new(a.jobs, vhcore::work_dir("C08"));
    let chk = |label: &str, release: bool| BuildSpec { label: label.into(), release, run_tests: true, check_regalloc: true, ..Default::default() };
    let specs = vec![chk("debug", false), chk("release", true)];
    // small batches: a report names an op index inside one package, keep packages inspectable
    let res = run_campaign(&pool, "c08", &cases, 60, &specs);
    let (mut funcs, mut pairs, mut spilled) = (0u64, 0u64, 0u64);
    let mut outcomes = vhcore::Distinct::default();
    for b in &res.batches {
        for o in &b.outs {
            funcs += o.regalloc_stats.0;
            pairs += o.regalloc_stats.1;
            spilled += o.regalloc_stats.2;
            if !o.regalloc_reports.is_empty() {
                // attribute to the smallest package: rerun each case of the batch alone
                let mut attributed = false;
                for k in 0..b.len {
                    let case = &cases[b.first + k];
                    let alone = pool.run(&[vh_comp::worker::Request {
                        id: 0,
                        name: "c08_alone".into(),
                        src: vh_comp::gen::render_package(std::slice::from_ref(case)),
                        extra_files: vec![],
                        with_std: true,
                        existing_dir: None,
                        builds: vec![chk(&o.label, o.label == "release")],
                    }]);
                    if let Some(Ok(r)) = alone.into_iter().next() {
                        if let Some(first) = r.builds[0].regalloc_reports.first() {
                            attributed = true;
                            rep.violation(
                                &format!("C08|{}|{}|allocation-checker", shape_of(case), o.label),
                                &format!("{} [{}]: {} ({} reports)", case.desc, o.label, first, r.builds[0].regalloc_reports.len()),
                                vh_comp::replay::case_replay_json(case, &o.label, o.label == "release"),
                            );
                        }
                    }
                }
                if !attributed {
                    rep.violation(
                        &format!("C08|batch|{}|allocation-checker", o.label),
                        &format!("batch {}..{} [{}]: {}", b.first, b.first + b.len, o.label, o.regalloc_reports[0]),
                        json!({"first_case": cases[b.first].desc, "reports": o.regalloc_reports.iter().take(5).collect::<Vec<_>>()}),
                    );
                }
            }
        }
    }
    for cr in &res.per_case {
        let case = &cases[cr.case_idx];
        for (label, b) in &cr.builds {
            match b {
                CaseBuild::Ran(o) => {
                    outcomes.add(&format!("{o:?}"));
                    if case.space == "ladder" {
                        if let Some(m) = expect_mismatch(o, &case.expect) {
                            rep.violation(
                                &format!("C08|{}|{label}|wrong-result", shape_of(case)),
                                &format!("{} [{label}] {m}", case.desc),
                                vh_comp::replay::case_replay_json(case, label, label == "release"),
                            );
                        }
                    }
                }
                CaseBuild::BuildFailed { error, panic, panic_loc } if case.space == "ladder" => {
                    rep.violation(
                        &format!("C08|{}|{label}|build-failed@{panic_loc}", shape_of(case)),
                        &format!("{} [{label}] build failed: {error} {panic:?}", case.desc),
                        vh_comp::replay::case_replay_json(case, label, label == "release"),
                    );
                }
                _ => {}
            }
        }
    }
    // Opcodes that define MORE than one register (SRW: the word and the "slot was set" flag) are
    // the one place where "an instruction defines at most one register" is false; nothing in the
    // generated corpus emits them (they need a contract context), so they get their own family:
    // k values computed before `__state_load_word`, all read after it.
    let mut multi_def_pkgs = 0u64;
    {
        let reqs: Vec<vh_comp::worker::Request> = [1usize, 2, 3, 5, 8, 12]
            .iter()
            .enumerate()
            .map(|(i, k)| vh_comp::worker::Request {
                id: i as u64,
                name: format!("c08_srw_k{k}"),
                src: multi_def_contract(*k),
                extra_files: vec![],
                with_std: true,
                existing_dir: None,
                builds: vec![chk("debug", false), chk("release", true)],
            })
            .collect();
        for (r, req) in pool.run(&reqs).into_iter().zip(reqs.iter()) {
            let resp = match r {
                Ok(r) => r,
                Err(e) => vhcore::machinery_failure(&format!("{}: {e}", req.name)),
            };
            multi_def_pkgs += 1;
            for o in &resp.builds {
                if !o.ok {
                    vhcore::machinery_failure(&format!("{} [{}] does not build: {} {:?}", req.name, o.label, o.error, o.panic));
                }
                funcs += o.regalloc_stats.0;
                pairs += o.regalloc_stats.1;
                if let Some(first) = o.regalloc_reports.first() {
                    rep.violation(
                        &format!("C08|multi-def-opcode|{}|allocation-checker", o.label),
                        &format!("{} [{}]: {} ({} reports)", req.name, o.label, first, o.regalloc_reports.len()),
                        json!({"package_main_sw": req.src, "build": o.label}),
                    );
                }
                if o.tests.is_empty() || o.tests.iter().any(|t| !t.passed) {
                    rep.violation(
                        &format!("C08|multi-def-opcode|{}|wrong-result", o.label),
                        &format!("{} [{}]: a value live across `__state_load_word` did not survive (in-language assertion failed): {:?}", req.name, o.label, o.tests.iter().map(|t| (t.name.clone(), t.passed)).collect::<Vec<_>>()),
                        json!({"package_main_sw": req.src, "build": o.label}),
                    );
                }
            }
        }
    }
    rep.set("multi_def_opcode_packages", multi_def_pkgs);
    if funcs == 0 || pairs == 0 {
        vhcore::machinery_failure("vacuous: the allocation checker (hook H3) did not run");
    }
    if spilled == 0 {
        vhcore::machinery_failure("vacuous: no function needed spilling — the ladder does not reach the spill path");
    }
    rep.set("evaluations", funcs);
    rep.set("distinct_nontrivial", outcomes.len() as u64);
    rep.set("rule", "evaluations = instruction lists (functions/entries) checked by the independent allocation checker; every function of the corpus in debug and release plus the pressure ladder (6 shapes x k simultaneously-live values, k crossing the number of allocatable registers); distinct_nontrivial = distinct VM outcomes");
    rep.set("def_liveout_pairs_checked", pairs);
    rep.set("spilled_registers", spilled);
    rep.set("programs", cases.len() as u64);
    rep.set("exhaustive", true);
    for c in cases.iter().rev().step_by((cases.len() / 6).max(1)) {
        rep.sample(json!({"case": c.desc}));
    }
    rep.assume("trusted base of the checker: the per-opcode def/use/successor tables of sway-core's Op (an error there would also change VM results, which oracle (2) compares)");
    rep.finish()
}

/// A contract method with `k` values computed before a `__state_load_word` (SRW, two outputs) of a
/// set slot and one of an unset slot, all used afterwards; the test asserts every value.
fn multi_def_contract(k: usize) -> String {
    let mut m = String::new();
    m.push_str("contract;\n");
    m.push_str("const KEY: b256 = 0x0000000000000000000000000000000000000000000000000000000000000007;\n");
    m.push_str("const UNSET: b256 = 0x0000000000000000000000000000000000000000000000000000000000000009;\n");
    m.push_str("abi A {\n    #[storage(read, write)]\n    fn run(a: u64, b: u64) -> u64;\n}\n");
    m.push_str("impl A for Contract {\n    #[storage(read, write)]\n    fn run(a: u64, b: u64) -> u64 {\n");
    m.push_str("        let slot = [1000u64, 0u64, 0u64, 0u64];\n        let _ = __state_store_quad(KEY, __addr_of(slot), 1);\n");
    for i in 0..k {
        m.push_str(&format!("        let x{i} = a * {} + b * {};\n", 3 + 2 * i, 5 + i));
    }
    m.push_str("        let v = __state_load_word(KEY);\n");
    m.push_str("        let w = __state_load_word(UNSET);\n");
    m.push_str("        let mut acc = v * 1000000 + w * 999;\n");
    for i in 0..k {
        m.push_str(&format!("        acc = acc * 7 + x{i};\n"));
    }
    m.push_str("        acc\n    }\n}\n");
    // expected value for a = 1, b = 2
    let mut acc: u64 = 1000 * 1_000_000;
    for i in 0..k {
        let x = (3 + 2 * i as u64) + 2 * (5 + i as u64);
        acc = acc.wrapping_mul(7).wrapping_add(x);
    }
    m.push_str(&format!("#[test]\nfn t0() {{\n    let c = abi(A, CONTRACT_ID);\n    assert_eq(c.run(1, 2), {acc});\n}}\n"));
    m
}

//! C08 — register allocation never clobbers a live value. Two oracles on every function of the
//! corpus plus the register-pressure ladder: (1) hook H3's independent post-allocation checker
//! (fresh liveness; no definition may land in the machine register of a different live virtual
//! register, MOVE copies excepted; spill slots distinct), (2) the VM result equals the reference.
use serde_json::json;
use vh_comp::campaign::*;
use vh_comp::pool::Pool;
use vh_comp::worker::BuildSpec;

fn main() {
    let a = vhcore::parse_args();
    vh_comp::maybe_serve_worker(&a);
    let code = match a.cmd.as_str() {
        "check" => run(&a),
        "replay" => vh_comp::replay::replay_case(&a),
        _ => vhcore::machinery_failure("usage: c08 check C08 --tier quick|thorough"),
    };
    std::process::exit(code);
}

fn run(a: &vhcore::Args) -> i32 {
    let mut rep = vhcore::Reporter::from_args(a, "exploration");
    let thorough = a.tier == vhcore::Tier::Thorough;
    let mut cases: Vec<_> = vh_comp::spaces::corpus(thorough)
        .into_iter()
        .filter(|c| thorough || c.space != "S1")
        .collect();
    // the ladder is the heart of this check: all k in 1..=64 in both tiers
    cases.retain(|c| c.space != "ladder");
    for shape in vh_comp::spaces::LADDER_SHAPES {
        for k in 1..=64usize {
            if thorough || k % 4 == 0 || (40..=56).contains(&k) || k == 1 {
                cases.push(vh_comp::spaces::ladder(shape, k));
            }
        }
    }
    let pool = Pool::new(a.jobs, vhcore::work_dir("C08"));
    let chk = |label: &str, release: bool| BuildSpec { label: label.into(), release, run_tests: true, check_regalloc: true, ..Default::default() };
    let specs = vec![chk("debug", false), chk("release", true)];
    // small batches: a report names an op index inside one package, keep packages inspectable
    let res = run_campaign(&pool, "c08", &cases, 60, &specs);
    let (mut funcs, mut pairs, mut spilled) = (0u64, 0u64, 0u64);
    let mut outcomes = vhcore::Distinct::default();
    for b in &res.batches {
        for o in &b.outs {
            funcs += o.regalloc_stats.0;
            pairs += o.regalloc_stats.1;
            spilled += o.regalloc_stats.2;
            if !o.regalloc_reports.is_empty() {
                // attribute to the smallest package: rerun each case of the batch alone
                let mut attributed = false;
                for k in 0..b.len {
                    let case = &cases[b.first + k];
                    let alone = pool.run(&[vh_comp::worker::Request {
                        id: 0,
                        name: "c08_alone".into(),
                        src: vh_comp::gen::render_package(std::slice::from_ref(case)),
                        extra_files: vec![],
                        with_std: true,
                        existing_dir: None,
                        builds: vec![chk(&o.label, o.label == "release")],
                    }]);
                    if let Some(Ok(r)) = alone.into_iter().next() {
                        if let Some(first) = r.builds[0].regalloc_reports.first() {
                            attributed = true;
                            rep.violation(
                                &format!("C08|{}|{}|allocation-checker", shape_of(case), o.label),
                                &format!("{} [{}]: {} ({} reports)", case.desc, o.label, first, r.builds[0].regalloc_reports.len()),
                                vh_comp::replay::case_replay_json(case, &o.label, o.label == "release"),
                            );
                        }
                    }
                }
                if !attributed {
                    rep.violation(
                        &format!("C08|batch|{}|allocation-checker", o.label),
                        &format!("batch {}..{} [{}]: {}", b.first, b.first + b.len, o.label, o.regalloc_reports[0]),
                        json!({"first_case": cases[b.first].desc, "reports": o.regalloc_reports.iter().take(5).collect::<Vec<_>>()}),
                    );
                }
            }
        }
    }
    for cr in &res.per_case {
        let case = &cases[cr.case_idx];
        for (label, b) in &cr.builds {
            match b {
                CaseBuild::Ran(o) => {
                    outcomes.add(&format!("{o:?}"));
                    if case.space == "ladder" {
                        if let Some(m) = expect_mismatch(o, &case.expect) {
                            rep.violation(
                                &format!("C08|{}|{label}|wrong-result", shape_of(case)),
                                &format!("{} [{label}] {m}", case.desc),
                                vh_comp::replay::case_replay_json(case, label, label == "release"),
                            );
                        }
                    }
                }
                CaseBuild::BuildFailed { error, panic, panic_loc } if case.space == "ladder" => {
                    rep.violation(
                        &format!("C08|{}|{label}|build-failed@{panic_loc}", shape_of(case)),
                        &format!("{} [{label}] build failed: {error} {panic:?}", case.desc),
                        vh_comp::replay::case_replay_json(case, label, label == "release"),
                    );
                }
                _ => {}
            }
        }
    }
    if funcs == 0 || pairs == 0 {
        vhcore::machinery_failure("vacuous: the allocation checker (hook H3) did not run");
    }
    if spilled == 0 {
        vhcore::machinery_failure("vacuous: no function needed spilling — the ladder does not reach the spill path");
    }
    rep.set("evaluations", funcs);
    rep.set("distinct_nontrivial", outcomes.len() as u64);
    rep.set("rule", "evaluations = instruction lists (functions/entries) checked by the independent allocation checker; every function of the corpus in debug and release plus the pressure ladder (6 shapes x k simultaneously-live values, k crossing the number of allocatable registers); distinct_nontrivial = distinct VM outcomes");
    rep.set("def_liveout_pairs_checked", pairs);
    rep.set("spilled_registers", spilled);
    rep.set("programs", cases.len() as u64);
    rep.set("exhaustive", true);
    for c in cases.iter().rev().step_by((cases.len() / 6).max(1)) {
        rep.sample(json!({"case": c.desc}));
    }
    rep.assume("trusted base of the checker: the per-opcode def/use/successor tables of sway-core's Op (an error there would also change VM results, which oracle (2) compares)");
    rep.finish()
}

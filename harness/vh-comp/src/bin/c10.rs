//! C10 — the trivial-encoding fast path is sound (DESIGN.md §4 C10).
//!
//! Declared space: the type trees of C09 (≤ N edges; quick N = 2, thorough N = 3) with their
//! boundary values. Per (type, value) one `#[test]` entry logging `is_encode_trivial::<T>()`,
//! `is_decode_trivial::<T>()`, `encode(v)` (fast path when classified trivial),
//! `v.abi_encode(Buffer::new())` (always field by field), the raw memory bytes of `v`,
//! `abi_decode::<T>(canonical)` (fast path when classified trivially decodable) and
//! `T::abi_decode(reader)`. Invalid inputs: for every type and every structural position of a
//! bool byte / enum discriminant reachable by the boundary values, each of the invalid patterns
//! {2,3,127,128,255} (bool) / {n,n+1,255,256,2^32,2^63,2^64−1} (n-variant tag) planted into the
//! canonical encoding, decoded through both decoders → must revert.
use serde_json::json;
use std::collections::{BTreeMap, BTreeSet};
use vh_comp::abigen::*;
use vh_comp::pool::Pool;

fn main() {
    let a = vhcore::parse_args();
    vh_comp::maybe_serve_worker(&a);
    vh_comp::install_panic_hook();
    let code = match a.cmd.as_str() {
        "check" => run(&a),
        "replay" => replay_cmd(&a),
        "dev" => dev_cmd(&a),
        _ => vhcore::machinery_failure("usage: c10 check C10 --tier quick|thorough | replay C10 <file>"),
    };
    std::process::exit(code);
}

fn env_usize(k: &str, d: usize) -> usize {
    std::env::var(k).ok().and_then(|s| s.parse().ok()).unwrap_or(d)
}

const BAD_BOOL: [u64; 5] = [2, 3, 127, 128, 255];

fn bad_tags(n: u64) -> Vec<u64> {
    vec![n, n + 1, 255, 256, 1 << 32, 1 << 63, u64::MAX]
}

fn run(a: &vhcore::Args) -> i32 {
    let mut rep = vhcore::Reporter::from_args(a, "exploration");
    let thorough = a.tier == vhcore::Tier::Thorough;
    let max_edges = env_usize("VH_C10_EDGES", if thorough { 3 } else { 2 });
    let cap = env_usize("VH_C10_CAP", 3);
    let sp = space(max_edges);
    oracle_self_test(&sp.types, cap);

    let mut cases = vec![];
    let mut n_valid = 0u64;
    let mut n_invalid = 0u64;
    let mut spots_total = 0u64;
    for t in &sp.types {
        let mut d = Decls::new();
        let abi = expected_abi(t, &mut d);
        let vals = values(t, cap);
        let mut covered: BTreeSet<(String, usize)> = BTreeSet::new();
        let mut invalid = vec![];
        for v in &vals {
            cases.push(Case::new(t, v, Kind::Trivial));
            n_valid += 1;
            let e = encode(&abi, v).unwrap_or_else(|e| vhcore::machinery_failure(&e));
            for s in &e.spots {
                if !covered.insert((s.path.clone(), s.len)) {
                    continue;
                }
                spots_total += 1;
                let pats: Vec<u64> = if s.len == 1 { BAD_BOOL.to_vec() } else { bad_tags(s.variants) };
                let np = pats.len();
                for (k, p) in pats.into_iter().enumerate() {
                    let mut bytes = e.bytes.clone();
                    if s.len == 1 {
                        bytes[s.offset] = p as u8;
                    } else {
                        bytes[s.offset..s.offset + 8].copy_from_slice(&p.to_be_bytes());
                    }
                    // the planted input must be invalid for the reference decoder too
                    if decode(&abi, &bytes).is_ok() {
                        vhcore::machinery_failure("generator: planted pattern is accepted by the reference decoder");
                    }
                    for slow in [false, true] {
                        // bound: types with ≤ 2 edges get every pattern through `abi_decode` and
                        // the first and last pattern through `T::abi_decode`; larger types get the
                        // first, middle and last pattern through `abi_decode` and the first
                        // through `T::abi_decode`
                        let small = t.edges() <= 2;
                        let keep = match (small, slow) {
                            (true, false) => true,
                            (true, true) => k == 0 || k == np - 1,
                            (false, false) => k == 0 || k == np / 2 || k == np - 1,
                            (false, true) => k == 0,
                        };
                        if !keep {
                            continue;
                        }
                        invalid.push(Case {
                            ty: t.clone(),
                            val: v.clone(),
                            kind: Kind::Invalid { bytes: bytes.clone(), spot: s.clone(), planted: p, slow },
                            canonical: e.bytes.clone(),
                        });
                        n_invalid += 1;
                    }
                }
            }
        }
        cases.extend(invalid);
    }

    if std::env::var("VH_STATS_ONLY").is_ok() {
        println!("types={} value_cases={n_valid} invalid_cases={n_invalid} positions={spots_total}", sp.types.len());
        return 0;
    }
    let plan = stages(&cases, max_edges > 2, env_usize("VH_C10_CHUNK_TYPES", 2500));
    let mut pool = Pool::new(a.jobs, vhcore::work_dir("C10"));
    pool.timeout = std::time::Duration::from_secs(1500);
    let mut outcomes = vhcore::Distinct::default();
    let mut nontrivial = vhcore::Distinct::default();
    let mut flag_types: BTreeMap<String, BTreeSet<String>> = BTreeMap::new();
    let mut per_type_flags: BTreeMap<(String, bool), BTreeSet<(bool, bool)>> = BTreeMap::new();
    let mut revert_codes: BTreeMap<String, u64> = BTreeMap::new();
    let mut mem_checked = 0u64;
    let camp = run_stages(
        &mut rep,
        &pool,
        &cases,
        &plan,
        "c10",
        env_usize("VH_C10_BATCH", 150),
        env_usize("VH_C10_BUDGET_S", if thorough { 660 } else { 70 }) as u64,
        &mut |c, r, release| {
            outcomes.add(&format!("{:?}", r.outcome));
            if let Some(f) = r.judged.flags {
                per_type_flags.entry((c.ty.show(), release)).or_default().insert(f);
                let k = format!("encode_trivial={} decode_trivial={}", f.0, f.1);
                flag_types.entry(k).or_default().insert(c.ty.show());
                if f.0 || f.1 {
                    mem_checked += 1;
                }
            }
            if let Some(code) = r.judged.revert {
                *revert_codes.entry(format!("{code:#x}")).or_default() += 1;
            }
            if r.judged.fails.is_empty() {
                match &c.kind {
                    Kind::Invalid { bytes, slow, .. } => nontrivial.add(&(c.ty.show(), bytes, slow, release)),
                    _ => nontrivial.add(&(c.ty.show(), &c.canonical, release)),
                }
            }
        },
    );
    for ((t, _), fs) in &per_type_flags {
        if fs.len() != 1 {
            vhcore::machinery_failure(&format!("classification of {t} varies between values: {fs:?}"));
        }
    }
    let (evals, total_fail) = (camp.evals, camp.failing);
    if outcomes.len() < 2 {
        vhcore::machinery_failure("vacuous: fewer than 2 distinct observed outcomes");
    }
    let classes: BTreeMap<String, u64> = flag_types.iter().map(|(k, v)| (k.clone(), v.len() as u64)).collect();
    let any_e = flag_types.keys().any(|k| k.contains("encode_trivial=true"));
    let any_d = flag_types.keys().any(|k| k.contains("decode_trivial=true"));
    let any_not = flag_types.keys().any(|k| k.contains("=false"));
    if !(any_e && any_d && any_not) && total_fail == 0 {
        vhcore::machinery_failure(&format!("vacuous: classification never varies: {classes:?}"));
    }
    if n_invalid == 0 || revert_codes.is_empty() {
        vhcore::machinery_failure("vacuous: no invalid-input case reverted");
    }
    rep.set("evaluations", evals);
    rep.set("distinct_nontrivial", nontrivial.len() as u64);
    rep.set(
        "rule",
        "distinct passing cases: (type, canonical encoding) for value cases whose fast path, slow path, memory bytes (when classified trivial) and both decoders matched the reference; (type, planted byte string, decoder) for invalid-input cases that reverted",
    );
    rep.set("types", sp.types.len() as u64);
    rep.set("types_per_size_in_edges", json!(sp.per_size));
    rep.set("max_edges", max_edges as u64);
    rep.set("value_cases", n_valid);
    rep.set("invalid_input_cases", n_invalid);
    rep.set("invalid_positions", spots_total);
    rep.set("value_cases_with_memory_bytes_compared", mem_checked);
    rep.set("types_by_classification", json!(classes));
    rep.set("revert_codes_observed", json!(revert_codes));
    rep.set("stages", json!(camp.stages_done));
    rep.set("distinct_outcomes", outcomes.len() as u64);
    rep.set("packages", camp.packages as u64);
    rep.set("packages_rebuilt_by_bisection", camp.rebuilt as u64);
    rep.set("failing_cases", total_fail as u64);
    rep.set("failing_cases_confirmed_alone_modeA", camp.confirmed as u64);
    rep.set("modeF_equals_modeA", camp.self_check.clone());
    rep.set("exhaustive", camp.exhaustive);
    rep.set("value_product_cap", cap as u64);
    for i in [0usize, cases.len() / 7, cases.len() / 3, cases.len() / 2, cases.len() - 1] {
        let c = &cases[i];
        rep.sample(json!({"case": c.desc(), "canonical": hex::encode(&c.canonical)}));
    }
    rep.assume("size of a type tree = number of edges (nodes − 1); leaves have size 0");
    rep.assume("values as in C09 (abigen::values) with the stated cap");
    rep.assume("memory bytes are compared with the canonical encoding only when is_encode_trivial or is_decode_trivial is true for the type; the classification itself is not prescribed");
    rep.assume("invalid-pattern bound: types with ≤ 2 edges: every pattern through abi_decode::<T>, first and last pattern through T::abi_decode; types with 3 edges: first/middle/last pattern through abi_decode::<T>, first through T::abi_decode");
    rep.assume("thorough: debug profile on the whole space, release profile on the types with ≤ 2 edges");
    rep.assume("invalid patterns are planted at every distinct structural path of a bool / discriminant that some boundary value of the type reaches (first value reaching it)");
    rep.finish()
}

//! C03 — every IR optimisation pass preserves program behaviour. For every batch of the compact
//! corpus: baseline = the O0 pipeline; variants = the baseline with each registered transform
//! inserted before the mandatory Fuel lowering passes (hook H1a) — at the last pre-lowering
//! position (quick), at every pre-lowering position, all ordered pairs at the last position, and
//! the O1 pipeline with each single pass removed (thorough). Every test entry of a variant must
//! behave exactly like the baseline and the variant must be accepted by the backend.
use serde_json::json;
use vh_comp::campaign::*;
use vh_comp::pool::Pool;
use vh_comp::worker::{transform_passes, BuildSpec, PassOp};

fn main() {
    let a = vhcore::parse_args();
    vh_comp::maybe_serve_worker(&a);
    let code = match a.cmd.as_str() {
        "check" => run(&a),
        "replay" => vh_comp::replay::replay_case(&a),
        _ => vhcore::machinery_failure("usage: c03 check C03 --tier quick|thorough"),
    };
    std::process::exit(code);
}

const FIRST_LOWERING: &str = "const-demotion";

pub fn variants(thorough: bool) -> Vec<BuildSpec> {
    let mut v = vec![];
    let mk = |label: String, release: bool, ops: Vec<PassOp>| BuildSpec { label, release, run_tests: true, pass_ops: ops, ..Default::default() };
    for p in transform_passes() {
        v.push(mk(format!("O0+{p}@pre-lowering"), false, vec![PassOp::InsertBefore { before: FIRST_LOWERING.into(), name: p.into() }]));
    }
    // the whole O1 pipeline against the O0 baseline: pass interactions (a pass that only misbehaves
    // on what its predecessors produce) show here in the quick tier; thorough names the culprit
    v.push(mk("O1-full".to_string(), true, vec![]));
    if thorough {
        // the O0 list is [lower-init-aggr, fn-dedup-debug, inline, globals-dce, dce, <lowering…>]
        for pos in 1..=4usize {
            for p in transform_passes() {
                v.push(mk(format!("O0+{p}@{pos}"), false, vec![PassOp::Insert { index: pos, name: p.into() }]));
            }
        }
        for p in transform_passes() {
            for q in transform_passes() {
                v.push(mk(
                    format!("O0+{p},{q}@pre-lowering"),
                    false,
                    vec![
                        PassOp::InsertBefore { before: FIRST_LOWERING.into(), name: p.into() },
                        PassOp::InsertBefore { before: FIRST_LOWERING.into(), name: q.into() },
                    ],
                ));
            }
        }
        // O1 = lower-init-aggr + 18 passes + lowering tail: remove each of the 18 in turn
        for i in 1..=18usize {
            v.push(mk(format!("O1-minus#{i}"), true, vec![PassOp::Remove { index: i }]));
        }
    }
    v
}

fn run(a: &vhcore::Args) -> i32 {
    let mut rep = vhcore::Reporter::from_args(a, "exploration");
    let thorough = a.tier == vhcore::Tier::Thorough;
    let cases = vh_comp::spaces::corpus_compact(thorough);
    let pool = Pool::new(a.jobs, vhcore::work_dir("C03"));
    let vars = variants(thorough);
    let mut specs = vec![spec("O0", false)];
    if thorough {
        specs.push(spec("O1", true));
    }
    specs.extend(vars.iter().cloned());
    // many builds per package: keep packages small so one request stays short
    let res = run_campaign(&pool, "c03", &cases, 120, &specs);
    let mut outcomes = vhcore::Distinct::default();
    let mut compared = 0u64;
    // pass 1: collect the differences; pass 2: classify. A class key names the inserted pass (not the
    // position, the program space or the neighbouring pass): a pass that misbehaves alone is the
    // culprit of every combination it takes part in.
    struct Diff {
        case_idx: usize,
        variant: usize,
        kind: String,
        msg: String,
    }
    let mut diffs: Vec<Diff> = vec![];
    for cr in &res.per_case {
        for (vi, v) in vars.iter().enumerate() {
            let base_label = if v.release && v.label != "O1-full" { "O1" } else { "O0" };
            let (Some(base), Some(var)) = (cr.builds.get(base_label), cr.builds.get(&v.label)) else { continue };
            compared += 1;
            if let CaseBuild::Ran(o) = var {
                outcomes.add(&format!("{o:?}"));
            }
            if let Some((kind, msg)) = diff_builds(base, var) {
                diffs.push(Diff { case_idx: cr.case_idx, variant: vi, kind, msg });
            }
        }
    }
    let inserted = |label: &str| -> Vec<String> {
        match label.strip_prefix("O0+") {
            Some(rest) => rest.split('@').next().unwrap_or("").split(',').map(|s| s.to_string()).collect(),
            None => vec![],
        }
    };
    let norm_kind = |k: &str| -> String {
        if k.contains("panics@") {
            let loc = k.split("panics@").nth(1).unwrap_or("");
            let root = vhcore::repo_root();
            let root = format!("{}/", root.to_string_lossy());
            format!("build-panics@{}", loc.strip_prefix(&root).unwrap_or(loc))
        } else if k.contains("rejected") {
            "backend-rejects".to_string()
        } else {
            "behaviour-differs".to_string()
        }
    };
    let bad_alone: std::collections::BTreeSet<String> = diffs
        .iter()
        .filter(|d| inserted(&vars[d.variant].label).len() == 1)
        .map(|d| inserted(&vars[d.variant].label)[0].clone())
        .collect();
    for d in &diffs {
        let case = &cases[d.case_idx];
        let v = &vars[d.variant];
        let base_label = if v.release && v.label != "O1-full" { "O1" } else { "O0" };
        let ins = inserted(&v.label);
        let key = if let Some(k) = case.known_class {
            format!("C03|{k}")
        } else if v.label == "O1-full" {
            format!("C03|pipeline=O1-vs-O0|{}|{}", shape_of(case), norm_kind(&d.kind))
        } else if ins.is_empty() {
            // O1 with one pass removed: name the removed pass
            let removed = res
                .batches
                .iter()
                .flat_map(|b| b.outs.iter())
                .find(|o| o.label == "O1")
                .and_then(|o| v.label.strip_prefix("O1-minus#").and_then(|i| i.parse::<usize>().ok()).and_then(|i| o.passes_run.get(i).cloned()))
                .unwrap_or_else(|| v.label.clone());
            format!("C03|O1-without={removed}|{}", norm_kind(&d.kind))
        } else if ins.len() == 1 {
            format!("C03|pass={}|{}", ins[0], norm_kind(&d.kind))
        } else if let Some(c) = ins.iter().find(|p| bad_alone.contains(*p)) {
            format!("C03|pass={c}|{}", norm_kind(&d.kind))
        } else {
            format!("C03|passes={}|{}", ins.join("+"), norm_kind(&d.kind))
        };
        let mut rj = vh_comp::replay::case_replay_json(case, &v.label, v.release);
        rj["pass_ops"] = serde_json::to_value(&v.pass_ops).unwrap();
        rj["how"] = json!("build the package with the default pipeline and with the pass list edited as in pass_ops (cfg fuellabs_sway_verif, sway_ir::pass_manager::verif::Controller::edit_passes); test t0 must behave identically");
        rep.violation(&key, &format!("{} [{} vs {base_label}]: {}", case.desc, v.label, d.msg), rj);
    }
    if outcomes.len() < 2 {
        vhcore::machinery_failure("vacuous: fewer than 2 distinct outcomes");
    }
    let mut differing = 0u64;
    let mut builds = 0u64;
    for b in &res.batches {
        let base: std::collections::BTreeMap<&str, &str> = b.outs.iter().filter(|o| o.label == "O0" || o.label == "O1").map(|o| (o.label.as_str(), o.bytecode_hash.as_str())).collect();
        for o in &b.outs {
            builds += 1;
            let bl = if o.label.starts_with("O1") { "O1" } else { "O0" };
            if o.ok && base.get(bl).map(|h| *h != o.bytecode_hash).unwrap_or(false) {
                differing += 1;
            }
        }
    }
    if differing == 0 {
        vhcore::machinery_failure("vacuous: no variant pipeline changed any bytecode (hook H1a not effective?)");
    }
    rep.set("evaluations", compared);
    rep.set("distinct_nontrivial", outcomes.len() as u64);
    rep.set("rule", "for every case of the compact corpus and every pipeline variant (each of the 19 registered transforms inserted before the lowering passes; thorough: every pre-lowering position, all ordered pairs, O1 with each pass removed): variant outcome == baseline outcome; distinct_nontrivial = distinct variant outcomes");
    rep.set("pipeline_variants", vars.len() as u64);
    rep.set("package_builds", builds);
    rep.set("package_builds_whose_bytecode_differs_from_baseline", differing);
    rep.set("programs", cases.len() as u64);
    rep.set("exhaustive", true);
    for v in vars.iter().step_by((vars.len() / 6).max(1)) {
        rep.sample(json!({"variant": v.label, "pass_ops": v.pass_ops}));
    }
    rep.assume("comparison is variant-vs-baseline on the same typed program; a bug present in every pipeline is C01's to find");
    rep.finish()
}

//! C27 — std collections (`Vec<u64>`, `Vec<(u8,u64)>`, `Bytes`, `String`) and wide integers / math
//! agree with reference models. Collections: every operation history up to a depth bound over a
//! declared alphabet, executed in the VM as one `#[test]` per maximal history, every observable
//! logged after every step, compared with a Rust model. Numerics: every (op, a, b) over boundary
//! alphabets against num-bigint.
use num_bigint::BigUint;
use num_traits::{One, ToPrimitive, Zero};
use serde_json::json;
use std::collections::BTreeMap;
use vh_comp::pool::Pool;
use vh_comp::stdgen::*;

const ID: &str = "C27";

const PRELUDE: &str = r#"script;

use std::bytes::Bytes;
use std::string::String;
use std::u128::*;
use std::math::*;
use std::convert::*;
use std::primitive_conversions::{u8::*, u16::*, u32::*, u64::*, u256::*, b256::*};

#[inline(never)]
fn opq<T>(x: T) -> T { asm(r: x) { r: T } }

fn main() {}

#[inline(never)]
fn lb(b: bool) { log(if b { 1u64 } else { 0u64 }); }
#[inline(never)]
fn l8(x: u8) { log(x.as_u64()); }
#[inline(never)]
fn lo64(o: Option<u64>) { match o { Some(x) => { log(1u64); log(x); }, None => { log(0u64); } } }
#[inline(never)]
fn lo8(o: Option<u8>) { match o { Some(x) => { log(1u64); log(x.as_u64()); }, None => { log(0u64); } } }
#[inline(never)]
fn le(e: (u8, u64)) { log(e.0.as_u64()); log(e.1); }
#[inline(never)]
fn lop(o: Option<(u8, u64)>) { match o { Some(e) => { log(1u64); le(e); }, None => { log(0u64); } } }
fn lo<T>(o: Option<T>) where T: AbiEncode { match o { Some(x) => { log(1u64); log(x); }, None => { log(0u64); } } }
#[inline(never)]
fn lu(x: U128) { log(x.upper()); log(x.lower()); }

#[inline(never)]
fn ov(v: Vec<u64>) {
    log(v.len()); log(v.capacity()); lb(v.is_empty()); lo64(v.last());
    let mut i = 0;
    while i < v.len() { log(v.get(i).unwrap()); i += 1; }
}
#[inline(never)]
fn ovp(v: Vec<(u8, u64)>) {
    log(v.len()); log(v.capacity()); lb(v.is_empty()); lop(v.last());
    let mut i = 0;
    while i < v.len() { le(v.get(i).unwrap()); i += 1; }
}
#[inline(never)]
fn ob(v: Bytes) {
    log(v.len()); log(v.capacity()); lb(v.is_empty());
    let mut i = 0;
    while i < v.len() { log(v.get(i).unwrap().as_u64()); i += 1; }
}
#[inline(never)]
fn os(s: String) {
    log(s.len()); log(s.capacity()); lb(s.is_empty());
    let b = s.as_bytes();
    let mut i = 0;
    while i < b.len() { log(b.get(i).unwrap().as_u64()); i += 1; }
}

"#;

fn main() {
    let a = vhcore::parse_args();
    vh_comp::maybe_serve_worker(&a);
    let code = match a.cmd.as_str() {
        "check" => run(&a),
        "replay" => replay_raw(&a),
        "probe" => probe(&a),
        "dump" => dump(&a),
        _ => vhcore::machinery_failure("usage: c27 check C27 --tier quick|thorough"),
    };
    std::process::exit(code);
}

/// `c27 probe <file.sw>`: build one package (Mode F, debug), print diagnostics and test outcomes.
fn probe(a: &vhcore::Args) -> i32 {
    let src = std::fs::read_to_string(&a.rest[0]).unwrap();
    let src = src.replace("//@PRELUDE@", PRELUDE);
    let pool = Pool::new(1, vhcore::work_dir("C27-probe"));
    let req = vh_comp::worker::Request { id: 0, name: "probe_pkg".into(), src, extra_files: vec![], with_std: true, builds: vec![test_spec(false, false)], existing_dir: None };
    match pool.run(&[req]).pop().unwrap() {
        Err(e) => println!("worker failure {e}"),
        Ok(r) => {
            let b = &r.builds[0];
            println!("ok={} err={} panic={:?} ms={}", b.ok, b.error, b.panic, b.millis);
            for d in &b.diagnostics {
                println!("  DIAG {}..{}: {}", d.start, d.end, d.message);
            }
            for t in &b.tests {
                println!("  {} -> {}", t.name, t.outcome.as_ref().map(show_outcome).unwrap_or_default());
            }
            if !b.run_error.is_empty() {
                println!("  run_error {}", b.run_error);
            }
        }
    }
    0
}

/// `c27 dump quick|thorough [n]`: print the first n generated cases (text + expectation).
fn dump(a: &vhcore::Args) -> i32 {
    let thorough = a.rest.first().map(|s| s == "thorough").unwrap_or(false);
    let n: usize = a.rest.get(1).and_then(|s| s.parse().ok()).unwrap_or(5);
    let (groups, _, _) = generate(thorough);
    for g in &groups {
        println!("=== group {} : {} cases", g.name, g.cases.len());
        for c in g.cases.iter().take(n) {
            println!("--- {} [{}]\n{}expect {}", c.desc, c.class, c.body, match &c.expect {
                Exp::Ok(l) => format!("ok {}", show_logs(l)),
                Exp::Revert { code, logs } => format!("revert {code:?} {}", show_logs(logs)),
            });
        }
    }
    0
}

// ---------------------------------------------------------------------------------------------
// Collections: model

#[derive(Clone, Copy, PartialEq, Eq, Debug, Hash)]
enum Kind {
    VecU64,
    VecPair,
    Bytes,
    Str,
}

impl Kind {
    fn name(&self) -> &'static str {
        match self {
            Kind::VecU64 => "Vec<u64>",
            Kind::VecPair => "Vec<(u8,u64)>",
            Kind::Bytes => "Bytes",
            Kind::Str => "String",
        }
    }
    fn lit(&self, v: u64) -> String {
        match self {
            Kind::VecU64 => format!("{v}"),
            Kind::VecPair => format!("({v}u8, {})", v + 1000),
            Kind::Bytes | Kind::Str => format!("{v}u8"),
        }
    }
    fn elem_logs(&self, v: u64, out: &mut Vec<Vec<u8>>) {
        out.push(w64(v));
        if *self == Kind::VecPair {
            out.push(w64(v + 1000));
        }
    }
    fn obs_fn(&self) -> &'static str {
        match self {
            Kind::VecU64 => "ov",
            Kind::VecPair => "ovp",
            Kind::Bytes => "ob",
            Kind::Str => "os",
        }
    }
    fn log_elem_fn(&self) -> &'static str {
        match self {
            Kind::VecU64 => "log",
            Kind::VecPair => "le",
            _ => "l8",
        }
    }
    fn log_opt_fn(&self) -> &'static str {
        match self {
            Kind::VecU64 => "lo64",
            Kind::VecPair => "lop",
            _ => "lo8",
        }
    }
    fn is_vec(&self) -> bool {
        matches!(self, Kind::VecU64 | Kind::VecPair)
    }
    fn ctor(&self) -> &'static str {
        match self {
            Kind::VecU64 | Kind::VecPair => "Vec",
            Kind::Bytes => "Bytes",
            Kind::Str => "String",
        }
    }
    fn decl_ty(&self) -> &'static str {
        match self {
            Kind::VecU64 => "Vec<u64>",
            Kind::VecPair => "Vec<(u8, u64)>",
            Kind::Bytes => "Bytes",
            Kind::Str => "String",
        }
    }
}

#[derive(Clone, PartialEq, Eq, Hash, Debug)]
struct St {
    items: Vec<u64>,
    cap: u64,
}

impl St {
    fn len(&self) -> u64 {
        self.items.len() as u64
    }
    fn grow_for_push(&mut self) {
        if self.len() == self.cap {
            self.cap = if self.cap == 0 { 1 } else { 2 * self.cap };
        }
    }
    fn obs(&self, k: Kind, out: &mut Vec<Vec<u8>>) {
        out.push(w64(self.len()));
        out.push(w64(self.cap));
        out.push(w64(self.items.is_empty() as u64));
        if k.is_vec() {
            match self.items.last() {
                None => out.push(w64(0)),
                Some(v) => {
                    out.push(w64(1));
                    k.elem_logs(*v, out);
                }
            }
        }
        for v in &self.items {
            k.elem_logs(*v, out);
        }
    }
    /// final `log(v)`: the ABI encoding of the whole collection
    fn abi(&self, k: Kind) -> Vec<u8> {
        let mut o = w64(self.len());
        for v in &self.items {
            match k {
                Kind::VecU64 => o.extend(w64(*v)),
                Kind::VecPair => {
                    o.push(*v as u8);
                    o.extend(w64(*v + 1000));
                }
                Kind::Bytes | Kind::Str => o.push(*v as u8),
            }
        }
        o
    }
}

#[derive(Clone, Debug, PartialEq)]
enum Op {
    Push,
    Pop,
    Insert(u64),
    Remove(u64),
    Get(u64),
    Set(u64),
    Swap(u64, u64),
    Clear,
    Resize(u64),
    CloneIt,
    FromSlice,
    Iter,
    EqClone,
    EqOther,
    // Bytes only
    Append(u64),
    AppendSelf,
    SplitAt(u64),
    KeepLeft(u64),
    KeepRight(u64),
    Splice(u64, u64, u64),
    ViaVec,
    TryB256,
    // String only
    SPushVia,
    SPushMoved,
    SFromStr(&'static str),
    SWithCap(u64),
    SNew,
    SFromBytes,
    SIntoBytes,
    SAsStr,
    SEqLit,
}

fn idx_label(i: u64, len: u64) -> String {
    if i == len {
        "len".into()
    } else if i == len + 1 {
        "len+1".into()
    } else if i + 1 == len {
        "len-1".into()
    } else if i == len + 2 {
        "len+2".into()
    } else if i == len + 3 {
        "len+3".into()
    } else {
        format!("{i}")
    }
}

fn state_pred(st: &St) -> String {
    let l = st.len();
    format!("len={}{}", if l >= 3 { "3+".to_string() } else { l.to_string() }, if l == st.cap { ",len==cap" } else { ",len<cap" })
}

/// Index alphabet {0, 1, len-1, len, len+1} resolved against the model's length.
fn idx_set(len: u64) -> Vec<u64> {
    let mut v = vec![0, 1, len, len + 1];
    if len >= 1 {
        v.push(len - 1);
    }
    v.sort();
    v.dedup();
    v
}

#[derive(Clone, Copy, PartialEq, Eq, Debug)]
enum Alpha {
    Core,
    Full,
}

fn dedup_ops(mut v: Vec<Op>) -> Vec<Op> {
    let mut out: Vec<Op> = vec![];
    for o in v.drain(..) {
        if !out.contains(&o) {
            out.push(o);
        }
    }
    out
}

fn ops_for(k: Kind, st: &St, alpha: Alpha) -> Vec<Op> {
    let l = st.len();
    let lm1 = l.saturating_sub(1);
    let mut v = vec![];
    if k == Kind::Str {
        v.extend([Op::Clear, Op::SPushVia, Op::SPushMoved, Op::SFromStr("a"), Op::SFromStr("abc"), Op::SWithCap(1), Op::CloneIt, Op::SAsStr, Op::SEqLit]);
        if alpha == Alpha::Full {
            v.extend([Op::SFromStr(""), Op::SWithCap(0), Op::SNew, Op::SFromBytes, Op::SIntoBytes, Op::FromSlice, Op::EqClone]);
        }
        return dedup_ops(v);
    }
    match alpha {
        Alpha::Core => {
            v.extend([Op::Push, Op::Pop, Op::Insert(0), Op::Insert(l), Op::Insert(l + 1), Op::Remove(0), Op::Remove(lm1), Op::Remove(l), Op::Set(lm1), Op::Swap(0, lm1), Op::Clear, Op::Resize(l + 2), Op::Resize(lm1), Op::Get(l)]);
            if k == Kind::Bytes {
                v.extend([Op::Append(2), Op::SplitAt(1), Op::SplitAt(l + 1), Op::Splice(1.min(l), l, 2)]);
            }
        }
        Alpha::Full => {
            v.push(Op::Push);
            v.push(Op::Pop);
            for i in idx_set(l) {
                v.push(Op::Insert(i));
            }
            for i in idx_set(l) {
                v.push(Op::Remove(i));
            }
            for i in idx_set(l) {
                v.push(Op::Get(i));
            }
            for i in idx_set(l) {
                v.push(Op::Set(i));
            }
            v.extend([Op::Swap(0, lm1), Op::Swap(lm1, 0), Op::Swap(0, 0), Op::Swap(0, l), Op::Swap(l, 0), Op::Swap(1, 0)]);
            v.push(Op::Clear);
            for n in [0, lm1, l, l + 1, l + 3] {
                v.push(Op::Resize(n));
            }
            v.extend([Op::CloneIt, Op::FromSlice, Op::Iter, Op::EqClone, Op::EqOther]);
            if k == Kind::Bytes {
                v.extend([Op::Append(0), Op::Append(2), Op::AppendSelf]);
                for i in idx_set(l) {
                    v.push(Op::SplitAt(i));
                }
                v.extend([Op::KeepLeft(1), Op::KeepRight(1)]);
                v.extend([Op::Splice(0, 0, 2), Op::Splice(0, l, 2), Op::Splice(1.min(l), l, 2), Op::Splice(l, l, 2), Op::Splice(0, l, 0), Op::Splice(0, l + 1, 0), Op::Splice(1, 0, 0)]);
                v.extend([Op::ViaVec, Op::TryB256]);
            }
        }
    }
    dedup_ops(v)
}

/// One applied step: Sway text, logs produced, the successor state (None = the op must revert),
/// class label.
struct Step {
    text: String,
    logs: Vec<Vec<u8>>,
    next: Option<St>,
    label: String,
}

#[allow(non_snake_case)]
fn STR_LIT_BYTES(s: &str) -> Vec<u64> {
    s.bytes().map(|b| b as u64).collect()
}

fn apply(k: Kind, st: &St, op: &Op, step: u64) -> Step {
    let e = step + 1; // the value written by this step (distinguishes every element)
    let el = k.lit(e);
    let o = k.obs_fn();
    let le = k.log_elem_fn();
    let lo = k.log_opt_fn();
    let l = st.len();
    let mut logs = vec![];
    let mut n = st.clone();
    let var = if k == Kind::Str { "s" } else { "v" };
    let tn = k.name();
    macro_rules! done {
        ($text:expr, $label:expr, $revert:expr) => {{
            let revert: bool = $revert;
            return Step { text: format!("    {}\n", $text), logs: if revert { vec![] } else { logs }, next: if revert { None } else { Some(n) }, label: format!("{tn}::{}|{}", $label, state_pred(st)) };
        }};
    }
    match op {
        Op::Push => {
            n.grow_for_push();
            n.items.push(e);
            n.obs(k, &mut logs);
            done!(format!("v.push({el}); {o}(v);"), "push", false)
        }
        Op::Pop => {
            match n.items.pop() {
                None => logs.push(w64(0)),
                Some(x) => {
                    logs.push(w64(1));
                    k.elem_logs(x, &mut logs);
                }
            }
            n.obs(k, &mut logs);
            done!(format!("{lo}(v.pop()); {o}(v);"), "pop", false)
        }
        Op::Insert(i) => {
            let rv = *i > l;
            if !rv {
                n.grow_for_push();
                n.items.insert(*i as usize, e);
                n.obs(k, &mut logs);
            }
            done!(format!("v.insert({i}, {el}); {o}(v);"), format!("insert({})", idx_label(*i, l)), rv)
        }
        Op::Remove(i) => {
            let rv = *i >= l;
            if !rv {
                let x = n.items.remove(*i as usize);
                k.elem_logs(x, &mut logs);
                n.obs(k, &mut logs);
            }
            done!(format!("{le}(v.remove({i})); {o}(v);"), format!("remove({})", idx_label(*i, l)), rv)
        }
        Op::Get(i) => {
            match st.items.get(*i as usize) {
                None => logs.push(w64(0)),
                Some(x) => {
                    logs.push(w64(1));
                    k.elem_logs(*x, &mut logs);
                }
            }
            done!(format!("{lo}(v.get({i}));"), format!("get({})", idx_label(*i, l)), false)
        }
        Op::Set(i) => {
            let rv = *i >= l;
            if !rv {
                n.items[*i as usize] = e;
                n.obs(k, &mut logs);
            }
            done!(format!("v.set({i}, {el}); {o}(v);"), format!("set({})", idx_label(*i, l)), rv)
        }
        Op::Swap(i, j) => {
            let rv = *i >= l || *j >= l;
            if !rv {
                n.items.swap(*i as usize, *j as usize);
                n.obs(k, &mut logs);
            }
            done!(format!("v.swap({i}, {j}); {o}(v);"), format!("swap({},{})", idx_label(*i, l), idx_label(*j, l)), rv)
        }
        Op::Clear => {
            n.items.clear();
            n.obs(k, &mut logs);
            done!(format!("{var}.clear(); {o}({var});"), "clear", false)
        }
        Op::Resize(m) => {
            if l >= *m {
                n.items.truncate(*m as usize);
            } else {
                if n.cap < *m {
                    n.cap = *m;
                }
                while n.len() < *m {
                    n.items.push(e);
                }
            }
            n.obs(k, &mut logs);
            done!(format!("v.resize({m}, {el}); {o}(v);"), format!("resize({})", idx_label(*m, l)), false)
        }
        Op::CloneIt => {
            n.cap = l;
            n.obs(k, &mut logs);
            done!(format!("{var} = {var}.clone(); {o}({var});"), "clone", false)
        }
        Op::FromSlice => {
            n.cap = l;
            n.obs(k, &mut logs);
            done!(format!("{var} = {}::from({var}.as_raw_slice()); {o}({var});", k.ctor()), "from(raw_slice)", false)
        }
        Op::Iter => {
            // position-weighted sum: order-sensitive, cannot overflow for the lengths explored
            let mut s: u64 = 0;
            for (p, x) in st.items.iter().enumerate() {
                s += (p as u64 + 1) * *x;
            }
            logs.push(w64(s));
            let key = match k {
                Kind::VecU64 => "e",
                Kind::VecPair => "e.0.as_u64()",
                _ => "e.as_u64()",
            };
            done!(format!("let mut acc = 0u64; let mut pos = 1u64; for e in v.iter() {{ acc += pos * {key}; pos += 1; }} log(acc);"), "iter", false)
        }
        Op::EqClone => {
            logs.push(w64(1));
            done!(format!("lb({var} == {var}.clone());"), "eq(clone)", false)
        }
        Op::EqOther => {
            logs.push(w64((st.items == vec![e]) as u64));
            done!(format!("let mut w: {} = {}::new(); w.push({el}); lb(v == w);", k.decl_ty(), k.ctor()), "eq(other)", false)
        }
        Op::Append(m) => {
            let mut other = St { items: vec![], cap: 0 };
            let mut t = String::from("let mut o = Bytes::new();");
            for q in 0..*m {
                let x = 20 + 10 * q + e;
                other.grow_for_push();
                other.items.push(x);
                t.push_str(&format!(" o.push({x}u8);"));
            }
            if *m > 0 {
                let both = l + m;
                if n.cap < both {
                    n.cap = both;
                }
                n.items.extend(other.items.iter().copied());
            }
            n.obs(k, &mut logs);
            other.obs(k, &mut logs);
            done!(format!("{t} v.append(o); ob(v); ob(o);"), format!("append(len{m})"), false)
        }
        Op::AppendSelf => {
            if l > 0 {
                if n.cap < 2 * l {
                    n.cap = 2 * l;
                }
                let c = n.items.clone();
                n.items.extend(c);
            }
            n.obs(k, &mut logs);
            done!("v.append(v); ob(v);".to_string(), "append(self)", false)
        }
        Op::SplitAt(i) | Op::KeepLeft(i) | Op::KeepRight(i) => {
            let rv = *i > l;
            let name = match op {
                Op::SplitAt(_) => "split_at",
                Op::KeepLeft(_) => "split_at.left",
                _ => "split_at.right",
            };
            let text = match op {
                Op::SplitAt(_) => format!("let (sl, sr) = v.split_at({i}); ob(sl); ob(sr); ob(v);"),
                Op::KeepLeft(_) => format!("let (sl, _sr) = v.split_at({i}); v = sl; ob(v);"),
                _ => format!("let (_sl, sr) = v.split_at({i}); v = sr; ob(v);"),
            };
            if !rv {
                let left = St { items: st.items[..*i as usize].to_vec(), cap: *i };
                let right = St { items: st.items[*i as usize..].to_vec(), cap: l - *i };
                match op {
                    Op::SplitAt(_) => {
                        left.obs(k, &mut logs);
                        right.obs(k, &mut logs);
                        n.obs(k, &mut logs);
                    }
                    Op::KeepLeft(_) => {
                        n = left;
                        n.obs(k, &mut logs);
                    }
                    _ => {
                        n = right;
                        n.obs(k, &mut logs);
                    }
                }
            }
            done!(text, format!("{name}({})", idx_label(*i, l)), rv)
        }
        Op::Splice(s, en, m) => {
            let rv = s > en || *en > l;
            let mut t = String::from("let mut o = Bytes::new();");
            let mut repl = vec![];
            for q in 0..*m {
                let x = 40 + 10 * q + e;
                repl.push(x);
                t.push_str(&format!(" o.push({x}u8);"));
            }
            if !rv {
                let spliced = St { items: st.items[*s as usize..*en as usize].to_vec(), cap: en - s };
                let mut items = st.items[..*s as usize].to_vec();
                items.extend(repl.iter().copied());
                items.extend(st.items[*en as usize..].iter().copied());
                n = St { cap: items.len() as u64, items };
                spliced.obs(k, &mut logs);
                n.obs(k, &mut logs);
            }
            done!(format!("{t} let sp = v.splice({s}, {en}, o); ob(sp); ob(v);"), format!("splice({},{},len{m})", idx_label(*s, l), idx_label(*en, l)), rv)
        }
        Op::ViaVec => {
            n.cap = l;
            n.obs(k, &mut logs);
            done!("v = Bytes::from(Vec::<u8>::from(v)); ob(v);".to_string(), "from(Vec<u8>::from(bytes))", false)
        }
        Op::TryB256 => {
            if l == 32 {
                logs.push(w64(1));
                logs.push(st.items.iter().map(|x| *x as u8).collect());
            } else {
                logs.push(w64(0));
            }
            done!("let y: Option<b256> = v.try_into(); match y { Some(x) => { log(1u64); log(x); }, None => { log(0u64); } };".to_string(), "try_into<b256>", false)
        }
        Op::SPushVia => {
            let c = 100 + e;
            n.items.push(c);
            n.cap = n.len();
            n.obs(k, &mut logs);
            done!(format!("let mut t = s.as_bytes(); t.push({c}u8); s = String::from_ascii(t); os(s);"), "as_bytes+push+from_ascii", false)
        }
        Op::SPushMoved => {
            let c = 100 + e;
            let mut t = St { items: st.items.clone(), cap: l };
            t.grow_for_push();
            t.items.push(c);
            n = t;
            n.obs(k, &mut logs);
            done!(format!("let mut t = s.as_bytes(); t.push({c}u8); s = String::from_moved_ascii(t); os(s);"), "as_bytes+push+from_moved_ascii", false)
        }
        Op::SFromStr(lit) => {
            n.items = STR_LIT_BYTES(lit);
            n.cap = n.len();
            n.obs(k, &mut logs);
            done!(format!("s = String::from_ascii_str(\"{lit}\"); os(s);"), format!("from_ascii_str(len{})", lit.len()), false)
        }
        Op::SWithCap(c) => {
            n = St { items: vec![], cap: *c };
            n.obs(k, &mut logs);
            done!(format!("s = String::with_capacity({c}); os(s);"), format!("with_capacity({c})"), false)
        }
        Op::SNew => {
            n = St { items: vec![], cap: 0 };
            n.obs(k, &mut logs);
            done!("s = String::new(); os(s);".to_string(), "new", false)
        }
        Op::SFromBytes => {
            n.cap = l;
            n.obs(k, &mut logs);
            done!("s = String::from(s.as_bytes()); os(s);".to_string(), "from(Bytes)", false)
        }
        Op::SIntoBytes => {
            // `t` = `s.as_bytes()` = a clone: len, cap = len
            let t = St { items: st.items.clone(), cap: l };
            t.obs(Kind::Bytes, &mut logs);
            n.cap = l;
            n.obs(k, &mut logs);
            done!("let t: Bytes = Bytes::from(s); ob(t); s = String::from_ascii(t); os(s);".to_string(), "Bytes::from(String)", false)
        }
        Op::SAsStr => {
            n.cap = l;
            n.obs(k, &mut logs);
            done!("s = String::from_ascii_str(s.as_str()); os(s);".to_string(), "from_ascii_str(as_str)", false)
        }
        Op::SEqLit => {
            logs.push(w64((st.items == STR_LIT_BYTES("a")) as u64));
            done!("lb(s == String::from_ascii_str(\"a\"));".to_string(), "eq(lit)", false)
        }
    }
}

#[derive(Clone, Debug)]
struct Start {
    label: &'static str,
    text: String,
    st: St,
}

fn starts(k: Kind) -> Vec<Start> {
    let t = k.decl_ty();
    let c = k.ctor();
    let o = k.obs_fn();
    match k {
        Kind::Str => vec![
            Start { label: "new", text: format!("    let mut s = String::new(); os(s);\n"), st: St { items: vec![], cap: 0 } },
            Start { label: "from_ascii_str(len2)", text: format!("    let mut s = String::from_ascii_str(\"xy\"); os(s);\n"), st: St { items: vec![120, 121], cap: 2 } },
        ],
        _ => {
            let mut v = vec![
                Start { label: "new", text: format!("    let mut v: {t} = {c}::new(); {o}(v);\n"), st: St { items: vec![], cap: 0 } },
                Start {
                    label: "len==cap==2",
                    text: format!("    let mut v: {t} = {c}::with_capacity(2); v.push({}); v.push({}); {o}(v);\n", k.lit(7), k.lit(8)),
                    st: St { items: vec![7, 8], cap: 2 },
                },
                Start { label: "with_capacity(0)", text: format!("    let mut v: {t} = {c}::with_capacity(0); {o}(v);\n"), st: St { items: vec![], cap: 0 } },
                Start { label: "with_capacity(1)", text: format!("    let mut v: {t} = {c}::with_capacity(1); {o}(v);\n"), st: St { items: vec![], cap: 1 } },
            ];
            if k == Kind::Bytes {
                let items: Vec<u64> = (1..=32).collect();
                let hexs: String = items.iter().map(|x| format!("{x:02x}")).collect();
                v.push(Start { label: "from(b256)", text: format!("    let mut v: Bytes = Bytes::from(0x{hexs}); ob(v);\n"), st: St { items, cap: 32 } });
            }
            v
        }
    }
}

struct Group {
    name: String,
    cases: Vec<RawCase>,
}

struct Explore {
    states: vhcore::Distinct,
    transitions: u64,
    ops_seen: BTreeMap<String, u64>,
}

#[allow(clippy::too_many_arguments)]
fn dfs(k: Kind, alpha: Alpha, st: &St, depth_left: u32, step: u64, body: &mut String, logs: &mut Vec<Vec<u8>>, descs: &mut Vec<String>, classes: &mut Vec<String>, ends: &mut Vec<usize>, start_label: &str, out: &mut Vec<RawCase>, ex: &mut Explore) {
    ex.states.add(&(k, st));
    let finalize = |body: &str, logs: &Vec<Vec<u8>>, descs: &Vec<String>, classes: &Vec<String>, ends: &Vec<usize>, reverted: bool, st: Option<&St>, out: &mut Vec<RawCase>| {
        let mut body = body.to_string();
        let mut logs = logs.clone();
        let mut classes = classes.clone();
        let mut ends = ends.clone();
        if let Some(st) = st {
            // final whole-collection ABI log
            let var = if k == Kind::Str { "s" } else { "v" };
            body.push_str(&format!("    log({var});\n"));
            logs.push(st.abi(k));
            classes.push(format!("{}::abi_encode|{}", k.name(), state_pred(st)));
            ends.push(logs.len());
        }
        out.push(RawCase {
            desc: format!("{} from {}: {}", k.name(), start_label, descs.join("; ")),
            class: classes.last().cloned().unwrap_or_default(),
            step_classes: classes,
            step_log_ends: ends,
            body,
            expect: if reverted { Exp::Revert { code: None, logs } } else { Exp::Ok(logs) },
            steps: descs.len() as u32,
        });
    };
    if depth_left == 0 {
        finalize(body, logs, descs, classes, ends, false, Some(st), out);
        return;
    }
    for op in ops_for(k, st, alpha) {
        let s = apply(k, st, &op, step);
        ex.transitions += 1;
        *ex.ops_seen.entry(s.label.split('|').next().unwrap_or("").to_string()).or_insert(0) += 1;
        let (bl, ll) = (body.len(), logs.len());
        body.push_str(&s.text);
        logs.extend(s.logs.iter().cloned());
        descs.push(s.label.split('|').next().unwrap_or("").split("::").last().unwrap_or("").to_string());
        classes.push(s.label.clone());
        ends.push(logs.len());
        match &s.next {
            None => finalize(body, logs, descs, classes, ends, true, None, out),
            Some(n) => dfs(k, alpha, n, depth_left - 1, step + 1, body, logs, descs, classes, ends, start_label, out, ex),
        }
        body.truncate(bl);
        logs.truncate(ll);
        descs.pop();
        classes.pop();
        ends.pop();
    }
}

/// Independent count of maximal histories (memoised on the model state).
fn count_paths(k: Kind, alpha: Alpha, st: &St, depth_left: u32, step: u64, memo: &mut BTreeMap<(Vec<u64>, u64, u32), u64>) -> u64 {
    if depth_left == 0 {
        return 1;
    }
    // the written values depend on the step, the successor *shape* (len, cap) does not — memoise on shape
    let key = (vec![st.len()], st.cap, depth_left);
    if let Some(c) = memo.get(&key) {
        return *c;
    }
    let mut c = 0;
    for op in ops_for(k, st, alpha) {
        match apply(k, st, &op, step).next {
            None => c += 1,
            Some(n) => c += count_paths(k, alpha, &n, depth_left - 1, step + 1, memo),
        }
    }
    memo.insert(key, c);
    c
}

struct Plan {
    kind: Kind,
    alpha: Alpha,
    depth: u32,
    /// indices into `starts(kind)`
    starts: Vec<usize>,
}

fn collection_plans(thorough: bool) -> Vec<Plan> {
    let mut p = vec![];
    if !thorough {
        for k in [Kind::VecU64, Kind::VecPair] {
            p.push(Plan { kind: k, alpha: Alpha::Core, depth: 3, starts: vec![0, 1] });
            p.push(Plan { kind: k, alpha: Alpha::Full, depth: 2, starts: vec![0, 1, 2, 3] });
        }
        p.push(Plan { kind: Kind::Bytes, alpha: Alpha::Core, depth: 3, starts: vec![0, 1] });
        p.push(Plan { kind: Kind::Bytes, alpha: Alpha::Full, depth: 2, starts: vec![0, 1, 3, 4] });
        p.push(Plan { kind: Kind::Str, alpha: Alpha::Core, depth: 3, starts: vec![0, 1] });
        p.push(Plan { kind: Kind::Str, alpha: Alpha::Full, depth: 2, starts: vec![0, 1] });
    } else {
        for k in [Kind::VecU64, Kind::VecPair] {
            p.push(Plan { kind: k, alpha: Alpha::Core, depth: 4, starts: vec![0, 1] });
            p.push(Plan { kind: k, alpha: Alpha::Full, depth: 3, starts: vec![0, 1] });
            p.push(Plan { kind: k, alpha: Alpha::Full, depth: 2, starts: vec![2, 3] });
        }
        p.push(Plan { kind: Kind::Bytes, alpha: Alpha::Core, depth: 4, starts: vec![0, 1] });
        p.push(Plan { kind: Kind::Bytes, alpha: Alpha::Full, depth: 3, starts: vec![1] });
        p.push(Plan { kind: Kind::Bytes, alpha: Alpha::Full, depth: 2, starts: vec![0, 2, 3, 4] });
        p.push(Plan { kind: Kind::Str, alpha: Alpha::Core, depth: 4, starts: vec![0, 1] });
        p.push(Plan { kind: Kind::Str, alpha: Alpha::Full, depth: 3, starts: vec![0, 1] });
    }
    p
}

// ---------------------------------------------------------------------------------------------
// Numerics

#[derive(Clone, Copy, PartialEq, Eq, Debug)]
enum NT {
    U8,
    U16,
    U32,
    U64,
    U128,
    U256,
}

impl NT {
    fn bits(&self) -> u32 {
        match self {
            NT::U8 => 8,
            NT::U16 => 16,
            NT::U32 => 32,
            NT::U64 => 64,
            NT::U128 => 128,
            NT::U256 => 256,
        }
    }
    fn name(&self) -> &'static str {
        match self {
            NT::U8 => "u8",
            NT::U16 => "u16",
            NT::U32 => "u32",
            NT::U64 => "u64",
            NT::U128 => "U128",
            NT::U256 => "u256",
        }
    }
    fn modulus(&self) -> BigUint {
        BigUint::one() << self.bits()
    }
    fn max(&self) -> BigUint {
        self.modulus() - 1u32
    }
    /// Sway expression producing the value at run time (operands hidden from constant folding).
    fn lit(&self, v: &BigUint) -> String {
        match self {
            NT::U128 => {
                let hi = (v >> 64u32).to_u64().unwrap();
                let lo = (v & BigUint::from(u64::MAX)).to_u64().unwrap();
                format!("U128::from((opq({hi}u64), opq({lo}u64)))")
            }
            NT::U256 => format!("opq(0x{:064x}u256)", v),
            _ => format!("opq({}{})", v, self.name()),
        }
    }
    /// statement logging expression `e` of this type
    fn log(&self, e: &str) -> String {
        match self {
            NT::U128 => format!("lu({e});"),
            _ => format!("log({e});"),
        }
    }
    fn enc(&self, v: &BigUint, out: &mut Vec<Vec<u8>>) {
        match self {
            NT::U128 => {
                out.push(w64((v >> 64u32).to_u64().unwrap()));
                out.push(w64((v & BigUint::from(u64::MAX)).to_u64().unwrap()));
            }
            _ => {
                let n = (self.bits() / 8) as usize;
                let b = v.to_bytes_be();
                let mut o = vec![0u8; n - b.len().min(n)];
                o.extend(&b[b.len() - b.len().min(n)..]);
                out.push(o);
            }
        }
    }
    fn mag(&self, v: &BigUint) -> &'static str {
        if v.is_zero() {
            "0"
        } else if v.is_one() {
            "1"
        } else if *v == self.max() {
            "max"
        } else if v.bits() <= 64 {
            "<=64bit"
        } else if v.bits() <= 128 {
            "<=128bit"
        } else {
            ">128bit"
        }
    }
}

fn pow2(n: u32) -> BigUint {
    BigUint::one() << n
}

fn boundary(t: NT) -> Vec<BigUint> {
    let w = t.bits();
    let mut v: Vec<BigUint> = vec![0u32.into(), 1u32.into(), 2u32.into(), 3u32.into(), 7u32.into(), 10u32.into()];
    v.extend([pow2(w / 2) - 1u32, pow2(w / 2), pow2(w / 2) + 1u32, pow2(w - 1) - 1u32, pow2(w - 1), pow2(w - 1) + 1u32, t.max() - 1u32, t.max()]);
    match t {
        NT::U128 => v.extend([pow2(32), pow2(63), pow2(96) + 7u32]),
        NT::U256 => v.extend([pow2(64) - 1u32, pow2(64), pow2(127), pow2(192) + 5u32]),
        _ => {}
    }
    v.retain(|x| *x <= t.max());
    v.sort();
    v.dedup();
    v
}

fn isqrt(n: &BigUint) -> BigUint {
    n.sqrt()
}

fn ilog(a: &BigUint, b: &BigUint) -> u32 {
    // floor(log_b(a)), a >= 1, b >= 2
    let mut r = 0u32;
    let mut p = b.clone();
    while p <= *a {
        r += 1;
        p *= b;
    }
    r
}

/// Input predicate of `a.log(b)`: undefined (a == 0 or b < 2) / a < base / defined, and whether
/// base^(floor(log2 a) / floor(log2 b)) — the first estimate a change-of-base implementation would
/// try — does not fit the type.
fn log_pred(a: &BigUint, b: &BigUint, m: &BigUint) -> &'static str {
    if a.is_zero() || *b < BigUint::from(2u32) {
        "undefined"
    } else if a < b {
        "a<base"
    } else if (BigUint::from(a.bits() - 1) / BigUint::from(b.bits() - 1)).to_u32().map(|e| b.pow(e) >= *m).unwrap_or(true) {
        "defined,base^(log2(a)/log2(base))-overflows"
    } else {
        "defined"
    }
}

fn sqrt_alphabet(t: NT) -> Vec<BigUint> {
    let w = t.bits();
    let mut v: Vec<BigUint> = vec![0u32.into(), 1u32.into(), 2u32.into(), 3u32.into()];
    let mut roots: Vec<BigUint> = vec![2u32.into(), 3u32.into(), 4u32.into(), 10u32.into(), pow2(w / 4), pow2(w / 2 - 1), pow2(w / 2) - 1u32];
    if w >= 64 {
        roots.extend([pow2(16), pow2(32) - 1u32, pow2(32), pow2(32) + 1u32]);
    }
    if w >= 128 {
        roots.extend([pow2(63), pow2(64) - 1u32]);
    }
    if w >= 256 {
        roots.extend([pow2(64), pow2(64) + 1u32, pow2(127), pow2(128) - 1u32]);
    }
    for r in roots {
        let sq = &r * &r;
        for d in [-1i32, 0, 1] {
            let x = if d < 0 { &sq - 1u32 } else { &sq + d as u32 };
            if x <= t.max() {
                v.push(x);
            }
        }
    }
    v.extend([t.max(), t.max() - 1u32, pow2(w - 1)]);
    v.sort();
    v.dedup();
    v
}

struct NumGen {
    cases: Vec<RawCase>,
}

impl NumGen {
    fn push(&mut self, desc: String, class: String, body: String, logs: Option<Vec<Vec<u8>>>) {
        self.cases.push(RawCase {
            desc,
            class,
            step_classes: vec![],
            step_log_ends: vec![],
            body: format!("    {body}\n"),
            expect: match logs {
                Some(l) => Exp::Ok(l),
                None => Exp::Revert { code: None, logs: vec![] },
            },
            steps: 1,
        });
    }

    /// binary op on one type returning the same type (None = must revert)
    fn bin(&mut self, t: NT, name: &str, expr: &dyn Fn(&str, &str) -> String, a: &BigUint, b: &BigUint, r: Option<BigUint>, pred: &str) {
        let body = format!("let a = {}; let b = {}; {}", t.lit(a), t.lit(b), t.log(&expr("a", "b")));
        let logs = r.map(|r| {
            let mut o = vec![];
            t.enc(&r, &mut o);
            o
        });
        // `log` is classified by its precise input predicate only (operand magnitudes would split one
        // root cause over several keys); the other operators also carry the operand magnitude classes
        let class = if name == "log" { format!("{}::{name}|{pred}", t.name()) } else { format!("{}::{name}|a:{},b:{}|{pred}", t.name(), t.mag(a), t.mag(b)) };
        self.push(format!("{}::{name}({a}, {b})", t.name()), class, body, logs);
    }

    fn bin_bool(&mut self, t: NT, name: &str, expr: &dyn Fn(&str, &str) -> String, a: &BigUint, b: &BigUint, r: bool) {
        let body = format!("let a = {}; let b = {}; lb({});", t.lit(a), t.lit(b), expr("a", "b"));
        self.push(format!("{}::{name}({a}, {b})", t.name()), format!("{}::{name}|a:{},b:{}|cmp", t.name(), t.mag(a), t.mag(b)), body, Some(vec![w64(r as u64)]));
    }
}

fn gen_numeric(thorough: bool) -> Vec<RawCase> {
    let mut g = NumGen { cases: vec![] };
    let exps_small: Vec<u32> = vec![0, 1, 2, 3, 4, 7, 8, 15, 16, 31, 32, 63, 64, 65];
    for t in [NT::U8, NT::U16, NT::U32, NT::U64, NT::U128, NT::U256] {
        let al = boundary(t);
        let m = t.modulus();
        let wide = matches!(t, NT::U128 | NT::U256);
        // binary arithmetic: full operator set for the wide types, wrapping_* and log for all
        for a in &al {
            for b in &al {
                if wide {
                    let s = a + b;
                    g.bin(t, "add", &|x, y| format!("{x} + {y}"), a, b, if s < m { Some(s.clone()) } else { None }, if s < m { "in-range" } else { "overflow" });
                    g.bin(t, "subtract", &|x, y| format!("{x} - {y}"), a, b, if a >= b { Some(a - b) } else { None }, if a >= b { "in-range" } else { "underflow" });
                    let p = a * b;
                    g.bin(t, "multiply", &|x, y| format!("{x} * {y}"), a, b, if p < m { Some(p.clone()) } else { None }, if p < m { "in-range" } else { "overflow" });
                    g.bin(t, "divide", &|x, y| format!("{x} / {y}"), a, b, if b.is_zero() { None } else { Some(a / b) }, if b.is_zero() { "div-by-zero" } else { "defined" });
                    g.bin(t, "modulo", &|x, y| format!("{x} % {y}"), a, b, if b.is_zero() { None } else { Some(a % b) }, if b.is_zero() { "div-by-zero" } else { "defined" });
                    g.bin(t, "binary_and", &|x, y| format!("{x} & {y}"), a, b, Some(a & b), "bitwise");
                    g.bin(t, "binary_or", &|x, y| format!("{x} | {y}"), a, b, Some(a | b), "bitwise");
                    if t == NT::U256 {
                        g.bin(t, "binary_xor", &|x, y| format!("{x} ^ {y}"), a, b, Some(a ^ b), "bitwise");
                    }
                    g.bin_bool(t, "lt", &|x, y| format!("{x} < {y}"), a, b, a < b);
                    g.bin_bool(t, "gt", &|x, y| format!("{x} > {y}"), a, b, a > b);
                    g.bin_bool(t, "eq", &|x, y| format!("{x} == {y}"), a, b, a == b);
                    if t == NT::U128 {
                        g.bin(t, "min", &|x, y| format!("{x}.min({y})"), a, b, Some(a.min(b).clone()), "total-ord");
                        g.bin(t, "max", &|x, y| format!("{x}.max({y})"), a, b, Some(a.max(b).clone()), "total-ord");
                    }
                }
                if t != NT::U128 {
                    g.bin(t, "wrapping_add", &|x, y| format!("{x}.wrapping_add({y})"), a, b, Some((a + b) % &m), if a + b < m { "in-range" } else { "wraps" });
                    g.bin(t, "wrapping_sub", &|x, y| format!("{x}.wrapping_sub({y})"), a, b, Some((&m + a - b) % &m), if a >= b { "in-range" } else { "wraps" });
                    g.bin(t, "wrapping_mul", &|x, y| format!("{x}.wrapping_mul({y})"), a, b, Some((a * b) % &m), if a * b < m { "in-range" } else { "wraps" });
                }
                if t == NT::U64 {
                    for (nm, r) in [("overflowing_add", a + b), ("overflowing_mul", a * b)] {
                        let body = format!("let a = {}; let b = {}; lu(a.{nm}(b));", t.lit(a), t.lit(b));
                        let mut o = vec![];
                        NT::U128.enc(&r, &mut o);
                        g.push(format!("u64::{nm}({a}, {b})"), format!("u64::{nm}|a:{},b:{}|{}", t.mag(a), t.mag(b), if r < m { "in-range" } else { "carries" }), body, Some(o));
                    }
                }
                // log(a, base b)
                let defined = !a.is_zero() && *b >= BigUint::from(2u32);
                g.bin(t, "log", &|x, y| format!("{x}.log({y})"), a, b, if defined { Some(BigUint::from(ilog(a, b))) } else { None }, log_pred(a, b, &m));
            }
        }
        // extra log operands: exact powers and their neighbours
        if wide || thorough {
            let mut extra: Vec<(BigUint, BigUint)> = vec![];
            for base in [3u32, 7, 10] {
                let b = BigUint::from(base);
                let mut p = b.clone();
                let mut last = p.clone();
                while p < m {
                    last = p.clone();
                    p *= &b;
                }
                extra.push((last.clone(), b.clone()));
                extra.push((&last - 1u32, b.clone()));
                extra.push((&last + 1u32, b.clone()));
                extra.push((b.pow(5), b.clone()));
                extra.push((b.pow(5) - 1u32, b.clone()));
            }
            for (a, b) in extra {
                if a <= t.max() {
                    g.bin(t, "log", &|x, y| format!("{x}.log({y})"), &a, &b, Some(BigUint::from(ilog(&a, &b))), log_pred(&a, &b, &m));
                }
            }
        }
        // pow
        let mut exps = exps_small.clone();
        if wide {
            exps.extend([127, 128, 129, 255, 256]);
        }
        for a in &al {
            for e in &exps {
                let r = a.pow(*e);
                let ok = r < m;
                let body = format!("let a = {}; {}", t.lit(a), t.log(&format!("a.pow(opq({e}u32))")));
                let logs = if ok {
                    let mut o = vec![];
                    t.enc(&r, &mut o);
                    Some(o)
                } else {
                    None
                };
                g.push(format!("{}::pow({a}, {e})", t.name()), format!("{}::pow|a:{},e:{}|{}", t.name(), t.mag(a), if *e < 2 { e.to_string() } else { ">=2".into() }, if ok { "in-range" } else { "overflow" }), body, logs);
            }
        }
        // shifts of the wide types
        if wide {
            for a in &al {
                for s in [0u64, 1, 63, 64, 65, 127, 128, 129, 255, 256, 257] {
                    if t == NT::U128 && s > 129 {
                        continue;
                    }
                    let l = if s >= t.bits() as u64 { BigUint::zero() } else { (a << s) % &m };
                    let r = if s >= t.bits() as u64 { BigUint::zero() } else { a >> s };
                    for (nm, sym, val) in [("lsh", "<<", l), ("rsh", ">>", r)] {
                        let body = format!("let a = {}; {}", t.lit(a), t.log(&format!("a {sym} opq({s}u64)")));
                        let mut o = vec![];
                        t.enc(&val, &mut o);
                        g.push(format!("{}::{nm}({a}, {s})", t.name()), format!("{}::{nm}|a:{}|shift{}", t.name(), t.mag(a), if s >= t.bits() as u64 { ">=width" } else if s >= 64 { ">=64" } else { "<64" }), body, Some(o));
                    }
                }
            }
        }
        // unary: sqrt, log2, not (wide), is_zero
        let mut un: Vec<BigUint> = sqrt_alphabet(t);
        un.extend(al.iter().cloned());
        un.sort();
        un.dedup();
        for a in &un {
            let mut o = vec![];
            t.enc(&isqrt(a), &mut o);
            g.push(format!("{}::sqrt({a})", t.name()), format!("{}::sqrt|a:{}|defined", t.name(), t.mag(a)), format!("let a = {}; {}", t.lit(a), t.log("a.sqrt()")), Some(o));
            let logs = if a.is_zero() {
                None
            } else {
                let mut o = vec![];
                t.enc(&BigUint::from(a.bits() - 1), &mut o);
                Some(o)
            };
            g.push(format!("{}::log2({a})", t.name()), format!("{}::log2|a:{}|{}", t.name(), t.mag(a), if a.is_zero() { "undefined" } else { "defined" }), format!("let a = {}; {}", t.lit(a), t.log("a.log2()")), logs);
        }
        for a in &al {
            if wide {
                let mut o = vec![];
                t.enc(&(t.max() - a), &mut o);
                g.push(format!("{}::not({a})", t.name()), format!("{}::not|a:{}|bitwise", t.name(), t.mag(a)), format!("let a = {}; {}", t.lit(a), t.log("!a")), Some(o));
            }
            g.push(format!("{}::is_zero({a})", t.name()), format!("{}::is_zero|a:{}|pred", t.name(), t.mag(a)), format!("let a = {}; lb(a.is_zero());", t.lit(a)), Some(vec![w64(a.is_zero() as u64)]));
        }
    }
    gen_conversions(&mut g);
    g.cases
}

fn gen_conversions(g: &mut NumGen) {
    let small = [NT::U8, NT::U16, NT::U32, NT::U64];
    let all = [NT::U8, NT::U16, NT::U32, NT::U64, NT::U128, NT::U256];
    for src in all {
        for dst in all {
            if src == dst {
                continue;
            }
            for a in boundary(src) {
                let fits = a <= dst.max();
                if dst.bits() < src.bits() {
                    // narrowing: `<dst as TryFrom<src>>::try_from`, `src.try_as_dst()`
                    if dst == NT::U128 {
                        continue; // no TryFrom<u256> for U128 in std
                    }
                    let mut exp = vec![];
                    if fits {
                        exp.push(w64(1));
                        dst.enc(&a, &mut exp);
                    } else {
                        exp.push(w64(0));
                    }
                    let cls = |f: &str| format!("{}::{f}<{}>|a:{}|{}", dst.name(), src.name(), src.mag(&a), if fits { "fits" } else { "too-large" });
                    g.push(
                        format!("<{} as TryFrom<{}>>::try_from({a})", dst.name(), src.name()),
                        cls("try_from"),
                        format!("let a = {}; let r: Option<{}> = <{} as TryFrom<{}>>::try_from(a); lo(r);", src.lit(&a), dst.name(), dst.name(), src.name()),
                        Some(exp.clone()),
                    );
                    if small.contains(&src) {
                        g.push(format!("{}::try_as_{}({a})", src.name(), dst.name()), cls("try_as"), format!("let a = {}; lo(a.try_as_{}());", src.lit(&a), dst.name()), Some(exp.clone()));
                    }
                    if src == NT::U128 && dst == NT::U64 {
                        let body = format!("let a = {}; match a.try_as_u64() {{ Ok(x) => {{ log(1u64); log(x); }}, Err(_) => {{ log(0u64); }} }};", src.lit(&a));
                        g.push(format!("U128::try_as_u64({a})"), cls("try_as"), body, Some(exp.clone()));
                    }
                } else {
                    // widening
                    let mut exp = vec![];
                    dst.enc(&a, &mut exp);
                    let cls = |f: &str| format!("{}::{f}<{}>|a:{}|widen", dst.name(), src.name(), src.mag(&a));
                    match (src, dst) {
                        (s, NT::U128) => {
                            g.push(format!("U128::from({}:{a})", s.name()), cls("from"), format!("let a = {}; lu(U128::from(a));", src.lit(&a)), Some(exp.clone()));
                        }
                        (NT::U128, NT::U256) => {
                            g.push(format!("U128::as_u256({a})"), cls("as"), format!("let a = {}; log(a.as_u256());", src.lit(&a)), Some(exp.clone()));
                            g.push(format!("u256::from(U128 {a})"), cls("from"), format!("let a = {}; let r: u256 = u256::from(a); log(r);", src.lit(&a)), Some(exp.clone()));
                            g.push(format!("b256::from(U128 {a})"), cls("from-b256"), format!("let a = {}; let r: b256 = b256::from(a); log(r);", src.lit(&a)), Some(exp.clone()));
                        }
                        (s, d) => {
                            g.push(format!("{}::as_{}({a})", s.name(), d.name()), cls("as"), format!("let a = {}; log(a.as_{}());", src.lit(&a), d.name()), Some(exp.clone()));
                            g.push(format!("{}::from({}:{a})", d.name(), s.name()), cls("from"), format!("let a = {}; let r: {} = {}::from(a); log(r);", src.lit(&a), d.name(), d.name()), Some(exp.clone()));
                        }
                    }
                }
            }
        }
    }
    // u256 <-> b256, U128 <-> (u64,u64)
    for a in boundary(NT::U256) {
        let mut exp = vec![];
        NT::U256.enc(&a, &mut exp);
        g.push(format!("u256::as_b256({a})"), "u256::as_b256|roundtrip".into(), format!("let a = {}; let b: b256 = a.as_b256(); log(b); log(b.as_u256());", NT::U256.lit(&a)), Some(vec![exp[0].clone(), exp[0].clone()]));
    }
    for a in boundary(NT::U128) {
        let mut exp = vec![];
        NT::U128.enc(&a, &mut exp);
        g.push(format!("U128::into<(u64,u64)>({a})"), "U128::into<(u64,u64)>|roundtrip".into(), format!("let a = {}; let p: (u64, u64) = a.into(); log(p.0); log(p.1);", NT::U128.lit(&a)), Some(exp));
    }
}

// ---------------------------------------------------------------------------------------------

/// Returns (groups of cases, exploration counters, closed-form counts per plan).
fn generate(thorough: bool) -> (Vec<Group>, Explore, Vec<(String, u64, u64)>) {
    let mut groups = vec![];
    let mut ex = Explore { states: Default::default(), transitions: 0, ops_seen: BTreeMap::new() };
    let mut counts = vec![];
    for p in collection_plans(thorough) {
        let ss = starts(p.kind);
        let mut cases = vec![];
        let mut closed = 0u64;
        for si in &p.starts {
            let s = &ss[*si];
            let mut body = s.text.clone();
            let mut logs = vec![];
            s.st.obs(p.kind, &mut logs);
            let mut classes = vec![format!("{}::{}|start", p.kind.name(), s.label)];
            let mut ends = vec![logs.len()];
            let mut descs = vec![];
            let before = cases.len();
            dfs(p.kind, p.alpha, &s.st, p.depth, 0, &mut body, &mut logs, &mut descs, &mut classes, &mut ends, s.label, &mut cases, &mut ex);
            let _ = before;
            closed += count_paths(p.kind, p.alpha, &s.st, p.depth, 0, &mut BTreeMap::new());
        }
        let name = format!("{} {:?} depth{} starts{:?}", p.kind.name(), p.alpha, p.depth, p.starts);
        counts.push((name.clone(), cases.len() as u64, closed));
        groups.push(Group { name, cases });
    }
    let num = gen_numeric(thorough);
    counts.push(("numeric".into(), num.len() as u64, num.len() as u64));
    groups.push(Group { name: "numeric".into(), cases: num });
    (groups, ex, counts)
}

fn run(a: &vhcore::Args) -> i32 {
    let mut rep = vhcore::Reporter::from_args(a, "model_checking");
    let thorough = a.tier == vhcore::Tier::Thorough;
    let t0 = std::time::Instant::now();
    let (groups, ex, counts) = generate(thorough);
    for (name, got, closed) in &counts {
        eprintln!("[c27] {name}: {got} cases (independent count {closed})");
        if got != closed {
            vhcore::machinery_failure(&format!("enumerator produced {got} cases for `{name}` but the independent count is {closed}"));
        }
    }
    let mut all: Vec<RawCase> = groups.into_iter().flat_map(|g| g.cases).collect();
    let dev_stride = dev_stride_filter(&mut all, &mut rep);
    eprintln!("[c27] generated {} cases in {:.1}s", all.len(), t0.elapsed().as_secs_f64());
    let pool = Pool::new(a.jobs, vhcore::work_dir("C27/run"));

    // Mode F = Mode A self-check on the first batch of collection cases and of numeric cases
    let first: Vec<&RawCase> = all.iter().take(40).chain(all.iter().rev().take(40)).collect();
    if let Err(e) = self_check_raw(&pool, "c27_selfcheck", &render(PRELUDE, &first)) {
        vhcore::machinery_failure(&e);
    }
    rep.set("modeF_equals_modeA", true);

    let batch = 250;
    let rr = run_raw(&pool, "c27", PRELUDE, &all, batch, false);
    let mut outcomes = vhcore::Distinct::default();
    let mut evaluations = 0u64;
    let mut transitions_validated = 0u64;
    let mut reverts_expected = 0u64;
    let mut revert_codes: BTreeMap<String, u64> = BTreeMap::new();
    let mut confirm_counter = 0usize;
    let mut seen = BTreeMap::new();
    for (c, r) in all.iter().zip(rr.results.iter()) {
        evaluations += 1;
        if let RawResult::Ran(o) = r {
            outcomes.add(&format!("{o:?}"));
            transitions_validated += c.steps as u64;
            if let vh_comp::engine::Outcome::Revert { code, .. } = o {
                *revert_codes.entry(format!("{code:#x}")).or_insert(0) += 1;
            }
        }
        if matches!(c.expect, Exp::Revert { .. }) {
            reverts_expected += 1;
        }
        judge(&mut rep, &pool, ID, PRELUDE, c, r, &mut confirm_counter, 1, &mut seen);
    }
    if outcomes.len() < 2 {
        vhcore::machinery_failure("vacuous: fewer than 2 distinct outcomes");
    }
    if !rr.worker_failures.is_empty() {
        eprintln!("[c27] worker failures: {:?}", rr.worker_failures);
    }
    let total_steps: u64 = all.iter().map(|c| c.steps as u64).sum();
    rep.set("evaluations", evaluations);
    rep.set("states", ex.states.len() as u64 + counts.last().map(|c| c.1).unwrap_or(0));
    rep.set("collection_model_states", ex.states.len() as u64);
    rep.set("transitions", total_steps);
    rep.set("traces_validated_against_impl", transitions_validated);
    rep.set("distinct_nontrivial", outcomes.len() as u64);
    rep.set("rule", "distinct observed test outcomes (ordered log payloads + revert status/code) over all generated histories and numeric cases");
    rep.set("cases_expected_to_revert", reverts_expected);
    rep.set("observed_revert_codes", json!(revert_codes));
    rep.set("packages_built", rr.packages_built as u64);
    rep.set("plans", json!(counts.iter().map(|(n, g, _)| json!({"space": n, "cases": g})).collect::<Vec<_>>()));
    rep.set("operations_exercised", json!(ex.ops_seen));
    rep.set("children_cpu_seconds", children_cpu_seconds());
    rep.set("exhaustive", !dev_stride);
    if thorough {
        rep.cap("thorough tier: the full alphabet is explored to depth 3 from 2 of the 4-5 start states (depth 2 from the others); depth 4 only over the core alphabet (String: depth 4 core / depth 3 full, both start states)");
    } else {
        rep.cap("quick tier: depth 3 over the core alphabet from 2 start states, depth 2 over the full alphabet from 4 start states");
    }
    for c in all.iter().step_by((all.len() / 10).max(1)) {
        rep.sample(json!({"case": c.desc, "class": c.class}));
    }
    rep.assume("values written by step k are k+1 (start states hold 7, 8 / 1..32) so that every element is distinguishable; only maximal histories are emitted (each logs every observable after every step, so every prefix is checked by its extensions); a history ends at the first operation that must revert");
    rep.assume("an operation documented to revert must revert with any code (std documents no codes); observed codes are recorded in `observed_revert_codes`; capacity is compared wherever `capacity()` is public, following the documented growth policy (double on push/insert when full, exact on with_capacity/resize/append/clone/from)");
    rep.assume("mathematically undefined inputs (x/0, log of 0, log base < 2) and results that do not fit the type must revert under the default VM flags; everything else must return the exact integer result");
    rep.finish()
}

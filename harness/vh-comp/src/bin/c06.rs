//! C06 — compile-time evaluation agrees with run-time evaluation. Every S1 expression (all
//! operators x widths x boundary operand pairs) is evaluated by the compiler in seven compile-time
//! contexts (module const, configurable, const initialised through five const-evaluable function
//! shapes) and, in the same test entry, at run time on opaque operands. A context that compiles must
//! yield exactly the run-time value; when run-time evaluation reverts the compiler may reject the
//! item or the program may revert, but it must never have substituted a value. Optimiser folding
//! of literal operands (release build) is compared against the same reference.
use serde_json::json;
use vh_comp::c06gen::{cases, Ctx, CONTEXTS};
use vh_comp::campaign::*;
use vh_comp::gen::*;
use vh_comp::pool::Pool;

fn main() {
    let a = vhcore::parse_args();
    vh_comp::maybe_serve_worker(&a);
    let code = match a.cmd.as_str() {
        "check" => run(&a),
        "replay" => vh_comp::replay::replay_case(&a),
        _ => vhcore::machinery_failure("usage: c06 check C06 --tier quick|thorough"),
    };
    std::process::exit(code);
}

fn run(a: &vhcore::Args) -> i32 {
    let mut rep = vhcore::Reporter::from_args(a, "exploration");
    let thorough = a.tier == vhcore::Tier::Thorough;
    let all: Vec<Case> = if thorough {
        cases(&vh_comp::spaces::INT_WIDTHS, &CONTEXTS, false)
    } else {
        let mut v = cases(&[8, 64, 256], &CONTEXTS, true);
        v.extend(cases(&[64], &[Ctx::Const], false));
        v
    };
    let mut pool = Pool::new(a.jobs, vhcore::work_dir("C06"));
    // One case per package: a rejected compile-time item (very common: e.g. no u8 arithmetic can be
    // evaluated in a const) must not take neighbours down with it, and the compiler reports only
    // the first failing item of a package. Packages are tiny, so workers are recycled rarely.
    pool.recycle_after = 600;
    let mut rejected: Vec<(usize, String)> = vec![];
    let unattributed_batches = 0u64;
    let survivors: Vec<usize> = (0..all.len()).collect();
    let surv_cases: Vec<Case> = all.clone();
    let specs = vec![spec("debug", false)];
    let res = run_campaign(&pool, "c06", &surv_cases, 1, &specs);
    let mut outcomes = vhcore::Distinct::default();
    let mut evals = 0u64;
    let mut ice = 0u64;
    for cr in &res.per_case {
        let case = &surv_cases[cr.case_idx];
        for (label, b) in &cr.builds {
            evals += 1;
            match b {
                CaseBuild::Ran(o) => {
                    outcomes.add(&format!("{o:?}"));
                    if let Some(m) = expect_mismatch(o, &case.expect) {
                        let kind = match (o, &case.expect) {
                            (vh_comp::engine::Outcome::Revert { logs, .. }, Expect::Revert(..)) if !logs.is_empty() => "value-substituted-for-reverting-expression",
                            (vh_comp::engine::Outcome::Ok { .. }, Expect::Revert(..)) => "no-revert-at-all",
                            (vh_comp::engine::Outcome::Revert { .. }, Expect::Ok(..)) => "unexpected-revert",
                            _ => "compile-time-value-differs-from-run-time-value",
                        };
                        rep.violation(
                            &format!("C06|{}|{kind}", shape_of(case).replace("C06/", "")),
                            &format!("{} [{label}] {m}", case.desc),
                            vh_comp::replay::case_replay_json(case, label, label == "release"),
                        );
                    }
                }
                CaseBuild::BuildFailed { error, panic, panic_loc } => {
                    // rejected without a span (late error) or compiler panic
                    if panic.is_some() {
                        ice += 1;
                        rep.violation(
                            &format!("C06|compiler-panic@{panic_loc}"),
                            &format!("{} [{label}] compiler panicked while evaluating at compile time: {panic:?}", case.desc),
                            vh_comp::replay::case_replay_json(case, label, label == "release"),
                        );
                    } else if matches!(case.expect, Expect::Ok(_)) && error.contains("nternal compiler error") {
                        ice += 1;
                        rep.violation(
                            &format!("C06|internal-compiler-error|{}", shape_of(case).replace("C06/", "")),
                            &format!("{} [{label}] {error}", case.desc),
                            vh_comp::replay::case_replay_json(case, label, label == "release"),
                        );
                    } else {
                        rejected.push((survivors[cr.case_idx], error.clone()));
                    }
                }
                CaseBuild::Missing => {}
            }
        }
    }
    // Optimiser folding: the same S1 expressions with LITERAL operands inside a function body, release
    // build (const-folding / ccp see the operands), against the reference value. A reverting
    // expression may be rejected at compile time, but no value may be substituted for it.
    let lit: Vec<Case> = vh_comp::spaces::corpus_literal(thorough);
    let pool2 = Pool::new(a.jobs, vhcore::work_dir("C06-lit"));
    let res2 = run_campaign(&pool2, "c06lit", &lit, 120, &[spec("release", true)]);
    let (mut folded_evals, mut folded_rejected) = (0u64, 0u64);
    for cr in &res2.per_case {
        let case = &lit[cr.case_idx];
        for (label, b) in &cr.builds {
            folded_evals += 1;
            match b {
                CaseBuild::Ran(o) => {
                    outcomes.add(&format!("{o:?}"));
                    if let Some(m) = expect_mismatch(o, &case.expect) {
                        rep.violation(
                            &format!("C06|optimiser-folding|{}|value-differs-from-run-time-semantics", shape_of(case)),
                            &format!("{} [{label}] {m}", case.desc),
                            vh_comp::replay::case_replay_json(case, label, true),
                        );
                    }
                }
                CaseBuild::BuildFailed { error, panic, panic_loc } => {
                    if panic.is_some() {
                        rep.violation(
                            &format!("C06|optimiser-folding|compiler-panic@{panic_loc}"),
                            &format!("{} [{label}] compiler panicked: {panic:?}", case.desc),
                            vh_comp::replay::case_replay_json(case, label, true),
                        );
                    } else if matches!(case.expect, Expect::Ok(_)) {
                        rep.violation(
                            &format!("C06|optimiser-folding|{}|valid-expression-rejected", shape_of(case)),
                            &format!("{} [{label}] {error}", case.desc),
                            vh_comp::replay::case_replay_json(case, label, true),
                        );
                    } else {
                        folded_rejected += 1;
                    }
                }
                CaseBuild::Missing => {}
            }
        }
    }
    rep.set("optimiser_folding_cases", folded_evals);
    rep.set("optimiser_folding_rejected_reverting", folded_rejected);
    evals += folded_evals;
    if outcomes.len() < 2 {
        vhcore::machinery_failure("vacuous: fewer than 2 distinct outcomes");
    }
    let rejected_valid = rejected.iter().filter(|(i, _)| matches!(all[*i].expect, Expect::Ok(_))).count();
    let rejected_reverting = rejected.len() - rejected_valid;
    rep.set("evaluations", evals + rejected.len() as u64);
    rep.set("distinct_nontrivial", outcomes.len() as u64);
    rep.set("rule", "every S1 (width, operator, boundary lhs, boundary rhs / shift amount) in each compile-time context, checked in one test entry against the run-time evaluation of the same expression on opaque operands and against the big-integer reference; distinct_nontrivial = distinct test outcomes");
    rep.set("cases", all.len() as u64);
    rep.set("rejected_at_compile_time_and_reverting_at_run_time", rejected_reverting as u64);
    rep.set("rejected_at_compile_time_although_run_time_yields_a_value", rejected_valid as u64);
    rep.set("batches_with_unattributed_errors", unattributed_batches);
    rep.set("compiler_panics_or_ices", ice);
    rep.set("exhaustive", true);
    for (i, m) in rejected.iter().filter(|(i, _)| matches!(all[*i].expect, Expect::Ok(_))).take(3) {
        rep.sample(json!({"rejected_although_valid": all[*i].desc, "message": m}));
    }
    for c in all.iter().step_by((all.len() / 5).max(1)) {
        rep.sample(json!({"case": c.desc, "expect": format!("{:?}", c.expect)}));
    }
    rep.assume("a compile-time context that REJECTS an expression is not a violation (the property constrains the values the compiler computes, and forbids substituting a value for a reverting expression); such rejections are counted in the evidence");
    rep.finish()
}

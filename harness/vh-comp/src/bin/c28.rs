//! C28 — persistent storage collections (`StorageVec<u64>`, `StorageMap<u64,u64>`, `StorageBytes`,
//! `StorageString`) behave like Vec / BTreeMap / byte-string models: every operation history up to a
//! depth bound, mixed over two fields (and two keys) of the same kind, executed in the VM against a
//! freshly deployed contract; after every step everything of that kind is read back and logged, at
//! the end everything of every kind.
use serde_json::json;
use std::collections::{BTreeMap, BTreeSet};
use vh_comp::pool::Pool;
use vh_comp::stdgen::*;

const ID: &str = "C28";

const PRELUDE: &str = r#"contract;

use std::storage::storage_vec::*;
use std::storage::storage_map::*;
use std::storage::storage_bytes::*;
use std::storage::storage_string::*;
use std::storage::storable_slice::*;
use std::bytes::Bytes;
use std::string::String;

storage {
    v0: StorageVec<u64> = StorageVec {},
    v1: StorageVec<u64> = StorageVec {},
    m0: StorageMap<u64, u64> = StorageMap {},
    m1: StorageMap<u64, u64> = StorageMap {},
    b0: StorageBytes = StorageBytes {},
    b1: StorageBytes = StorageBytes {},
    s0: StorageString = StorageString {},
    s1: StorageString = StorageString {},
}

abi S {
    #[storage(read, write)] fn vec_push(f: u64, v: u64);
    #[storage(read, write)] fn vec_pop(f: u64);
    #[storage(read, write)] fn vec_insert(f: u64, i: u64, v: u64);
    #[storage(read, write)] fn vec_remove(f: u64, i: u64);
    #[storage(read, write)] fn vec_swap_remove(f: u64, i: u64);
    #[storage(read, write)] fn vec_set(f: u64, i: u64, v: u64);
    #[storage(read, write)] fn vec_swap(f: u64, i: u64, j: u64);
    #[storage(read, write)] fn vec_resize(f: u64, n: u64, v: u64);
    #[storage(read, write)] fn vec_reverse(f: u64);
    #[storage(read, write)] fn vec_fill(f: u64, v: u64);
    #[storage(read, write)] fn vec_store(f: u64, n: u64, base: u64);
    #[storage(read, write)] fn vec_clear(f: u64);
    #[storage(read)] fn dump_vec();
    #[storage(read, write)] fn map_insert(f: u64, k: u64, v: u64);
    #[storage(read, write)] fn map_remove(f: u64, k: u64);
    #[storage(read, write)] fn map_try_insert(f: u64, k: u64, v: u64);
    #[storage(read, write)] fn map_write(f: u64, k: u64, v: u64);
    #[storage(read, write)] fn map_clear(f: u64, k: u64);
    #[storage(read)] fn dump_map();
    #[storage(read, write)] fn bytes_write(f: u64, n: u64, seed: u64);
    #[storage(read, write)] fn bytes_clear(f: u64);
    #[storage(read)] fn dump_bytes();
    #[storage(read, write)] fn str_write(f: u64, n: u64, seed: u64);
    #[storage(read, write)] fn str_clear(f: u64);
    #[storage(read)] fn dump_str();
    #[storage(read)] fn dump_all();
}

fn lb(b: bool) { log(if b { 1u64 } else { 0u64 }); }
fn lo64(o: Option<u64>) { match o { Some(x) => { log(1u64); log(x); }, None => { log(0u64); } } }

#[storage(read)]
fn vk(f: u64) -> StorageKey<StorageVec<u64>> { if f == 0 { storage.v0 } else { storage.v1 } }
#[storage(read)]
fn mk(f: u64) -> StorageKey<StorageMap<u64, u64>> { if f == 0 { storage.m0 } else { storage.m1 } }
#[storage(read)]
fn bk(f: u64) -> StorageKey<StorageBytes> { if f == 0 { storage.b0 } else { storage.b1 } }
#[storage(read)]
fn sk(f: u64) -> StorageKey<StorageString> { if f == 0 { storage.s0 } else { storage.s1 } }

fn mkbytes(n: u64, seed: u64) -> Bytes {
    let mut b = Bytes::new();
    let mut j = 0;
    while j < n {
        b.push(((seed + j) % 256).try_as_u8().unwrap());
        j += 1;
    }
    b
}

#[storage(read)]
fn d_vec() {
    let mut f = 0;
    while f < 2 {
        let k = vk(f);
        let n = k.len();
        log(n);
        lb(k.is_empty());
        match k.first() { Some(x) => { log(1u64); log(x.read()); }, None => { log(0u64); } };
        match k.last() { Some(x) => { log(1u64); log(x.read()); }, None => { log(0u64); } };
        let mut i = 0;
        while i < n { log(k.get(i).unwrap().read()); i += 1; }
        lb(k.get(n).is_none());
        let lv = k.load_vec();
        log(lv.len());
        let mut i = 0;
        while i < lv.len() { log(lv.get(i).unwrap()); i += 1; }
        let mut acc = 0u64;
        for e in k.iter() { acc = acc * 16 + e.read(); }
        log(acc);
        f += 1;
    }
}

#[storage(read)]
fn d_map() {
    let mut f = 0;
    while f < 2 {
        let m = mk(f);
        let mut k = 0;
        while k < 3 { lo64(m.get(k).try_read()); k += 1; }
        f += 1;
    }
}

#[storage(read)]
fn d_bytes() {
    let mut f = 0;
    while f < 2 {
        let k = bk(f);
        log(k.len());
        match k.read_slice() { Some(b) => { log(1u64); log(b.len()); log(b); }, None => { log(0u64); } };
        f += 1;
    }
}

#[storage(read)]
fn d_str() {
    let mut f = 0;
    while f < 2 {
        let k = sk(f);
        log(k.len());
        match k.read_slice() { Some(s) => { log(1u64); log(s.len()); log(s); }, None => { log(0u64); } };
        f += 1;
    }
}

impl S for Contract {
    #[storage(read, write)] fn vec_push(f: u64, v: u64) { vk(f).push(v); d_vec(); }
    #[storage(read, write)] fn vec_pop(f: u64) { lo64(vk(f).pop()); d_vec(); }
    #[storage(read, write)] fn vec_insert(f: u64, i: u64, v: u64) { vk(f).insert(i, v); d_vec(); }
    #[storage(read, write)] fn vec_remove(f: u64, i: u64) { log(vk(f).remove(i)); d_vec(); }
    #[storage(read, write)] fn vec_swap_remove(f: u64, i: u64) { log(vk(f).swap_remove(i)); d_vec(); }
    #[storage(read, write)] fn vec_set(f: u64, i: u64, v: u64) { vk(f).set(i, v); d_vec(); }
    #[storage(read, write)] fn vec_swap(f: u64, i: u64, j: u64) { vk(f).swap(i, j); d_vec(); }
    #[storage(read, write)] fn vec_resize(f: u64, n: u64, v: u64) { vk(f).resize(n, v); d_vec(); }
    #[storage(read, write)] fn vec_reverse(f: u64) { vk(f).reverse(); d_vec(); }
    #[storage(read, write)] fn vec_fill(f: u64, v: u64) { vk(f).fill(v); d_vec(); }
    #[storage(read, write)] fn vec_store(f: u64, n: u64, base: u64) {
        let mut v: Vec<u64> = Vec::new();
        let mut j = 0;
        while j < n { v.push(base + j); j += 1; }
        vk(f).store_vec(v);
        d_vec();
    }
    #[storage(read, write)] fn vec_clear(f: u64) { lb(vk(f).clear()); d_vec(); }
    #[storage(read)] fn dump_vec() { d_vec(); }
    #[storage(read, write)] fn map_insert(f: u64, k: u64, v: u64) { mk(f).insert(k, v); d_map(); }
    #[storage(read, write)] fn map_remove(f: u64, k: u64) { lb(mk(f).remove(k)); d_map(); }
    #[storage(read, write)] fn map_try_insert(f: u64, k: u64, v: u64) {
        match mk(f).try_insert(k, v) {
            Ok(x) => { log(1u64); log(x); },
            Err(StorageMapError::OccupiedError(p)) => { log(0u64); log(p); },
        }
        d_map();
    }
    #[storage(read, write)] fn map_write(f: u64, k: u64, v: u64) { mk(f).get(k).write(v); d_map(); }
    #[storage(read, write)] fn map_clear(f: u64, k: u64) { lb(mk(f).get(k).clear()); d_map(); }
    #[storage(read)] fn dump_map() { d_map(); }
    #[storage(read, write)] fn bytes_write(f: u64, n: u64, seed: u64) { bk(f).write_slice(mkbytes(n, seed)); d_bytes(); }
    #[storage(read, write)] fn bytes_clear(f: u64) { lb(bk(f).clear()); d_bytes(); }
    #[storage(read)] fn dump_bytes() { d_bytes(); }
    #[storage(read, write)] fn str_write(f: u64, n: u64, seed: u64) { sk(f).write_slice(String::from_ascii(mkbytes(n, seed))); d_str(); }
    #[storage(read, write)] fn str_clear(f: u64) { lb(sk(f).clear()); d_str(); }
    #[storage(read)] fn dump_str() { d_str(); }
    #[storage(read)] fn dump_all() { d_vec(); d_map(); d_bytes(); d_str(); }
}

"#;

fn main() {
    let a = vhcore::parse_args();
    vh_comp::maybe_serve_worker(&a);
    let code = match a.cmd.as_str() {
        "check" => run(&a),
        "replay" => replay_raw(&a),
        "dump" => dump(&a),
        _ => vhcore::machinery_failure("usage: c28 check C28 --tier quick|thorough"),
    };
    std::process::exit(code);
}

// ---------------------------------------------------------------------------------------------
// Models

#[derive(Clone, PartialEq, Eq, Hash, Debug, Default)]
struct VecF {
    items: Vec<u64>,
    /// the length slot has been written and not cleared since (return value of `StorageKey::clear`)
    len_set: bool,
}

#[derive(Clone, PartialEq, Eq, Hash, Debug, Default)]
struct SliceF {
    data: Vec<u8>,
    len_set: bool,
    /// content slots currently set (index relative to sha256(field id))
    slots: BTreeSet<u64>,
}

#[derive(Clone, PartialEq, Eq, Hash, Debug, Default)]
struct World {
    v: [VecF; 2],
    /// (field, key) -> value; presence = slot set
    m: [BTreeMap<u64, u64>; 2],
    b: [SliceF; 2],
    s: [SliceF; 2],
}

fn opt(o: Option<u64>, out: &mut Vec<Vec<u8>>) {
    match o {
        None => out.push(w64(0)),
        Some(x) => {
            out.push(w64(1));
            out.push(w64(x));
        }
    }
}

impl World {
    fn dump_vec_field(&self, f: usize, out: &mut Vec<Vec<u8>>) {
        let it = &self.v[f].items;
        out.push(w64(it.len() as u64));
        out.push(w64(it.is_empty() as u64));
        opt(it.first().copied(), out);
        opt(it.last().copied(), out);
        for x in it {
            out.push(w64(*x));
        }
        out.push(w64(1));
        out.push(w64(it.len() as u64));
        for x in it {
            out.push(w64(*x));
        }
        let mut acc = 0u64;
        for x in it {
            acc = acc.wrapping_mul(16).wrapping_add(*x);
        }
        out.push(w64(acc));
    }
    fn dump_map_field(&self, f: usize, out: &mut Vec<Vec<u8>>) {
        for k in 0..3u64 {
            opt(self.m[f].get(&k).copied(), out);
        }
    }
    fn dump_slice_field(sl: &SliceF, out: &mut Vec<Vec<u8>>) {
        let n = sl.data.len() as u64;
        out.push(w64(n));
        if n == 0 {
            out.push(w64(0));
        } else {
            out.push(w64(1));
            out.push(w64(n));
            let mut p = w64(n);
            p.extend(&sl.data);
            out.push(p);
        }
    }
    fn dump_kind(&self, k: K, f: usize, out: &mut Vec<Vec<u8>>) {
        match k {
            K::Vec => self.dump_vec_field(f, out),
            K::Map => self.dump_map_field(f, out),
            K::Bytes => World::dump_slice_field(&self.b[f], out),
            K::Str => World::dump_slice_field(&self.s[f], out),
        }
    }
}

#[derive(Clone, Copy, PartialEq, Eq, Debug, Hash)]
enum K {
    Vec,
    Map,
    Bytes,
    Str,
}

impl K {
    fn name(&self) -> &'static str {
        match self {
            K::Vec => "StorageVec",
            K::Map => "StorageMap",
            K::Bytes => "StorageBytes",
            K::Str => "StorageString",
        }
    }
    #[allow(dead_code)]
    fn dump_fn(&self) -> &'static str {
        match self {
            K::Vec => "dump_vec",
            K::Map => "dump_map",
            K::Bytes => "dump_bytes",
            K::Str => "dump_str",
        }
    }
}

#[derive(Clone, Debug, PartialEq)]
enum Op {
    // vec (field, ...)
    Push(usize),
    Pop(usize),
    Insert(usize, u64),
    Remove(usize, u64),
    SwapRemove(usize, u64),
    Set(usize, u64),
    Swap(usize, u64, u64),
    Resize(usize, u64),
    Reverse(usize),
    Fill(usize),
    Store(usize, u64),
    VClear(usize),
    // map (field, key)
    MInsert(usize, u64),
    MRemove(usize, u64),
    MTryInsert(usize, u64),
    MWrite(usize, u64),
    MClear(usize, u64),
    // bytes / string (field, len)
    SWrite(usize, u64),
    SClear(usize),
}

const SLICE_LENS: [u64; 7] = [0, 1, 31, 32, 33, 64, 65];

fn idx_label(i: u64, len: u64) -> String {
    if i == len {
        "len".into()
    } else if i == len + 1 {
        "len+1".into()
    } else if i + 1 == len {
        "len-1".into()
    } else if i == len + 2 {
        "len+2".into()
    } else {
        format!("{i}")
    }
}

fn dedup_ops(v: Vec<Op>) -> Vec<Op> {
    let mut out: Vec<Op> = vec![];
    for o in v {
        if !out.contains(&o) {
            out.push(o);
        }
    }
    out
}

fn ops_for(k: K, w: &World, full: bool) -> Vec<Op> {
    let mut v = vec![];
    match k {
        K::Vec => {
            for f in 0..2 {
                let l = w.v[f].items.len() as u64;
                let lm1 = l.saturating_sub(1);
                if !full {
                    v.extend([Op::Push(f), Op::Pop(f), Op::Insert(f, 0), Op::Remove(f, 0), Op::SwapRemove(f, 0), Op::Resize(f, l + 2), Op::Store(f, 3), Op::Remove(f, l), Op::Set(f, l), Op::Insert(f, l + 1)]);
                } else {
                    v.extend([
                        Op::Push(f),
                        Op::Pop(f),
                        Op::Insert(f, 0),
                        Op::Insert(f, l),
                        Op::Insert(f, l + 1),
                        Op::Remove(f, 0),
                        Op::Remove(f, lm1),
                        Op::Remove(f, l),
                        Op::SwapRemove(f, 0),
                        Op::SwapRemove(f, lm1),
                        Op::SwapRemove(f, l),
                        Op::Set(f, 0),
                        Op::Set(f, lm1),
                        Op::Set(f, l),
                        Op::Swap(f, 0, lm1),
                        Op::Swap(f, 0, l),
                        Op::Resize(f, l + 2),
                        Op::Resize(f, lm1),
                        Op::Reverse(f),
                        Op::Fill(f),
                        Op::Store(f, 3),
                        Op::Store(f, 0),
                        Op::Store(f, 5),
                        Op::VClear(f),
                    ]);
                }
            }
        }
        K::Map => {
            for f in 0..2 {
                for key in 0..2u64 {
                    v.extend([Op::MInsert(f, key), Op::MRemove(f, key), Op::MTryInsert(f, key)]);
                    if full {
                        v.extend([Op::MWrite(f, key), Op::MClear(f, key)]);
                    }
                }
            }
        }
        K::Bytes | K::Str => {
            for f in 0..2 {
                for n in SLICE_LENS {
                    v.push(Op::SWrite(f, n));
                }
                v.push(Op::SClear(f));
            }
        }
    }
    dedup_ops(v)
}

struct Step {
    call: String,
    /// logs emitted by the operation itself (return value)
    logs: Vec<Vec<u8>>,
    next: Option<World>,
    /// class label: op + state predicate
    label: String,
    field: usize,
}

fn lenb(l: usize) -> String {
    if l >= 3 {
        "3+".into()
    } else {
        l.to_string()
    }
}

fn apply(k: K, w: &World, op: &Op, step: u64) -> Step {
    let val = step + 1;
    let mut n = w.clone();
    let mut logs = vec![];
    let kn = k.name();
    macro_rules! done {
        ($f:expr, $call:expr, $label:expr, $pred:expr, $revert:expr) => {{
            let revert: bool = $revert;
            return Step { call: $call, logs: if revert { vec![] } else { logs }, next: if revert { None } else { Some(n) }, label: format!("{kn}::{}|{}", $label, $pred), field: $f };
        }};
    }
    match op {
        Op::Push(f) | Op::Pop(f) | Op::Insert(f, _) | Op::Remove(f, _) | Op::SwapRemove(f, _) | Op::Set(f, _) | Op::Swap(f, _, _) | Op::Resize(f, _) | Op::Reverse(f) | Op::Fill(f) | Op::Store(f, _) | Op::VClear(f) => {
            let f = *f;
            let l = w.v[f].items.len() as u64;
            let pred = format!("len={},other-len={}", lenb(l as usize), lenb(w.v[1 - f].items.len()));
            let vf = &mut n.v[f];
            match op {
                Op::Push(_) => {
                    vf.items.push(val);
                    vf.len_set = true;
                    done!(f, format!("c.vec_push({f}, {val});"), "push", pred, false)
                }
                Op::Pop(_) => {
                    let r = vf.items.pop();
                    if r.is_some() {
                        vf.len_set = true;
                    }
                    opt(r, &mut logs);
                    done!(f, format!("c.vec_pop({f});"), "pop", pred, false)
                }
                Op::Insert(_, i) => {
                    let rv = *i > l;
                    if !rv {
                        vf.items.insert(*i as usize, val);
                        vf.len_set = true;
                    }
                    done!(f, format!("c.vec_insert({f}, {i}, {val});"), format!("insert({})", idx_label(*i, l)), pred, rv)
                }
                Op::Remove(_, i) => {
                    let rv = *i >= l;
                    if !rv {
                        logs.push(w64(vf.items.remove(*i as usize)));
                        vf.len_set = true;
                    }
                    done!(f, format!("c.vec_remove({f}, {i});"), format!("remove({})", idx_label(*i, l)), pred, rv)
                }
                Op::SwapRemove(_, i) => {
                    let rv = *i >= l;
                    if !rv {
                        logs.push(w64(vf.items.swap_remove(*i as usize)));
                        vf.len_set = true;
                    }
                    done!(f, format!("c.vec_swap_remove({f}, {i});"), format!("swap_remove({})", idx_label(*i, l)), pred, rv)
                }
                Op::Set(_, i) => {
                    let rv = *i >= l;
                    if !rv {
                        vf.items[*i as usize] = val;
                    }
                    done!(f, format!("c.vec_set({f}, {i}, {val});"), format!("set({})", idx_label(*i, l)), pred, rv)
                }
                Op::Swap(_, i, j) => {
                    let rv = *i >= l || *j >= l;
                    if !rv {
                        vf.items.swap(*i as usize, *j as usize);
                    }
                    done!(f, format!("c.vec_swap({f}, {i}, {j});"), format!("swap({},{})", idx_label(*i, l), idx_label(*j, l)), pred, rv)
                }
                Op::Resize(_, m) => {
                    vf.items.resize(*m as usize, val);
                    vf.len_set = true;
                    done!(f, format!("c.vec_resize({f}, {m}, {val});"), format!("resize({})", idx_label(*m, l)), pred, false)
                }
                Op::Reverse(_) => {
                    vf.items.reverse();
                    done!(f, format!("c.vec_reverse({f});"), "reverse", pred, false)
                }
                Op::Fill(_) => {
                    for x in vf.items.iter_mut() {
                        *x = val;
                    }
                    done!(f, format!("c.vec_fill({f}, {val});"), "fill", pred, false)
                }
                Op::Store(_, m) => {
                    let base = 50 + 10 * step;
                    vf.items = (0..*m).map(|j| base + j).collect();
                    vf.len_set = true;
                    done!(f, format!("c.vec_store({f}, {m}, {base});"), format!("store_vec(len{m})"), pred, false)
                }
                Op::VClear(_) => {
                    logs.push(w64(vf.len_set as u64));
                    vf.items.clear();
                    vf.len_set = false;
                    done!(f, format!("c.vec_clear({f});"), "StorageKey::clear", format!("{pred},{}", if w.v[f].len_set { "len-slot-set" } else { "len-slot-unset" }), false)
                }
                _ => unreachable!(),
            }
        }
        Op::MInsert(f, key) | Op::MRemove(f, key) | Op::MTryInsert(f, key) | Op::MWrite(f, key) | Op::MClear(f, key) => {
            let (f, key) = (*f, *key);
            let present = w.m[f].contains_key(&key);
            let pred = format!("key-{}", if present { "present" } else { "absent" });
            let mf = &mut n.m[f];
            match op {
                Op::MInsert(..) => {
                    mf.insert(key, val);
                    done!(f, format!("c.map_insert({f}, {key}, {val});"), "insert", pred, false)
                }
                Op::MRemove(..) => {
                    logs.push(w64(mf.remove(&key).is_some() as u64));
                    done!(f, format!("c.map_remove({f}, {key});"), "remove", pred, false)
                }
                Op::MTryInsert(..) => {
                    match mf.get(&key) {
                        Some(p) => {
                            logs.push(w64(0));
                            logs.push(w64(*p));
                        }
                        None => {
                            mf.insert(key, val);
                            logs.push(w64(1));
                            logs.push(w64(val));
                        }
                    }
                    done!(f, format!("c.map_try_insert({f}, {key}, {val});"), "try_insert", pred, false)
                }
                Op::MWrite(..) => {
                    mf.insert(key, val);
                    done!(f, format!("c.map_write({f}, {key}, {val});"), "get(k).write", pred, false)
                }
                Op::MClear(..) => {
                    logs.push(w64(mf.remove(&key).is_some() as u64));
                    done!(f, format!("c.map_clear({f}, {key});"), "get(k).clear", pred, false)
                }
                _ => unreachable!(),
            }
        }
        Op::SWrite(f, len) => {
            let f = *f;
            let seed = 16 * (step + 1) + 7 * f as u64;
            let sl = if k == K::Bytes { &mut n.b[f] } else { &mut n.s[f] };
            let old = sl.data.len();
            sl.data = (0..*len).map(|j| ((seed + j) % 256) as u8).collect();
            sl.len_set = true;
            for s in 0..(len + 31) / 32 {
                sl.slots.insert(s);
            }
            let m = if k == K::Bytes { "bytes_write" } else { "str_write" };
            done!(f, format!("c.{m}({f}, {len}, {seed});"), format!("write_slice(len{len})"), format!("old-len={}", if old == 0 { "0".to_string() } else if (old as u64) < *len { "shorter".into() } else if (old as u64) == *len { "same".into() } else { "longer".into() }), false)
        }
        Op::SClear(f) => {
            let f = *f;
            let sl = if k == K::Bytes { &mut n.b[f] } else { &mut n.s[f] };
            let slots = (sl.data.len() as u64 + 31) / 32;
            // documented: `true` if all of the cleared slots (length slot + content slots) were set
            let all = sl.len_set && (0..slots).all(|s| sl.slots.contains(&s));
            logs.push(w64(all as u64));
            for s in 0..slots {
                sl.slots.remove(&s);
            }
            let pred = format!("len={},{}", if sl.data.is_empty() { "0" } else { ">0" }, if sl.len_set { "len-slot-set" } else { "len-slot-unset" });
            sl.data.clear();
            sl.len_set = false;
            let m = if k == K::Bytes { "bytes_clear" } else { "str_clear" };
            done!(f, format!("c.{m}({f});"), "clear", pred, false)
        }
    }
}

struct Explore {
    states: vhcore::Distinct,
    transitions: u64,
    ops_seen: BTreeMap<String, u64>,
}

struct Acc {
    body: String,
    logs: Vec<Vec<u8>>,
    descs: Vec<String>,
    classes: Vec<String>,
    ends: Vec<usize>,
}

fn final_dump(w: &World, acc: &mut Acc) {
    acc.body.push_str("    c.dump_all();\n");
    for k in [K::Vec, K::Map, K::Bytes, K::Str] {
        for f in 0..2 {
            w.dump_kind(k, f, &mut acc.logs);
        }
        acc.classes.push(format!("final-dump|{}", k.name()));
        acc.ends.push(acc.logs.len());
    }
}

#[allow(clippy::too_many_arguments)]
fn dfs(k: K, full: bool, w: &World, depth_left: u32, step: u64, acc: &mut Acc, start_label: &str, out: &mut Vec<RawCase>, ex: &mut Explore) {
    ex.states.add(&(k, w));
    let emit = |acc: &Acc, reverted: bool, out: &mut Vec<RawCase>| {
        out.push(RawCase {
            desc: format!("{} from {}: {}", k.name(), start_label, acc.descs.join(" ")),
            class: acc.classes.last().cloned().unwrap_or_default(),
            step_classes: acc.classes.clone(),
            step_log_ends: acc.ends.clone(),
            body: acc.body.clone(),
            expect: if reverted { Exp::Revert { code: None, logs: acc.logs.clone() } } else { Exp::Ok(acc.logs.clone()) },
            steps: acc.descs.len() as u32,
        });
    };
    if depth_left == 0 {
        let (bl, ll, cl) = (acc.body.len(), acc.logs.len(), acc.classes.len());
        final_dump(w, acc);
        emit(acc, false, out);
        acc.body.truncate(bl);
        acc.logs.truncate(ll);
        acc.classes.truncate(cl);
        acc.ends.truncate(cl);
        return;
    }
    for op in ops_for(k, w, full) {
        let s = apply(k, w, &op, step);
        ex.transitions += 1;
        *ex.ops_seen.entry(s.label.split('|').next().unwrap_or("").to_string()).or_insert(0) += 1;
        let (bl, ll, cl, dl) = (acc.body.len(), acc.logs.len(), acc.classes.len(), acc.descs.len());
        acc.body.push_str(&format!("    {}\n", s.call));
        acc.descs.push(s.call.trim_start_matches("c.").to_string());
        match &s.next {
            None => {
                acc.classes.push(format!("{}|result", s.label));
                acc.ends.push(acc.logs.len());
                emit(acc, true, out);
            }
            Some(nw) => {
                // segment 1: result of the op + read-back of the target field (or field 0 first)
                acc.logs.extend(s.logs.iter().cloned());
                acc.classes.push(format!("{}|result", s.label));
                acc.ends.push(acc.logs.len());
                for f in 0..2 {
                    nw.dump_kind(k, f, &mut acc.logs);
                    acc.classes.push(format!("{}|{}", s.label, if f == s.field { "read-back:target-field" } else { "read-back:other-field" }));
                    acc.ends.push(acc.logs.len());
                }
                dfs(k, full, nw, depth_left - 1, step + 1, acc, start_label, out, ex);
            }
        }
        acc.body.truncate(bl);
        acc.logs.truncate(ll);
        acc.classes.truncate(cl);
        acc.ends.truncate(cl);
        acc.descs.truncate(dl);
    }
}

fn count_paths(k: K, full: bool, w: &World, depth_left: u32, step: u64, memo: &mut BTreeMap<(Vec<u64>, u32), u64>) -> u64 {
    if depth_left == 0 {
        return 1;
    }
    // op menus and revert conditions depend only on the vector lengths
    let key = (vec![w.v[0].items.len() as u64, w.v[1].items.len() as u64], depth_left);
    if let Some(c) = memo.get(&key) {
        return *c;
    }
    let mut c = 0;
    for op in ops_for(k, w, full) {
        match apply(k, w, &op, step).next {
            None => c += 1,
            Some(n) => c += count_paths(k, full, &n, depth_left - 1, step + 1, memo),
        }
    }
    memo.insert(key, c);
    c
}

struct Plan {
    k: K,
    full: bool,
    depth: u32,
    populated: bool,
}

fn plans(thorough: bool) -> Vec<Plan> {
    if !thorough {
        vec![
            Plan { k: K::Vec, full: false, depth: 3, populated: false },
            Plan { k: K::Map, full: false, depth: 3, populated: false },
            Plan { k: K::Bytes, full: true, depth: 3, populated: false },
            Plan { k: K::Str, full: true, depth: 3, populated: false },
        ]
    } else {
        vec![
            Plan { k: K::Vec, full: false, depth: 4, populated: false },
            Plan { k: K::Vec, full: true, depth: 3, populated: false },
            Plan { k: K::Vec, full: false, depth: 3, populated: true },
            Plan { k: K::Map, full: false, depth: 4, populated: false },
            Plan { k: K::Map, full: true, depth: 3, populated: false },
            Plan { k: K::Bytes, full: true, depth: 4, populated: false },
            Plan { k: K::Str, full: true, depth: 4, populated: false },
        ]
    }
}

fn generate(thorough: bool) -> (Vec<RawCase>, Explore, Vec<(String, u64, u64)>) {
    let mut ex = Explore { states: Default::default(), transitions: 0, ops_seen: BTreeMap::new() };
    let mut all = vec![];
    let mut counts = vec![];
    for p in plans(thorough) {
        let mut w = World::default();
        let mut acc = Acc { body: "    let c = abi(S, CONTRACT_ID);\n".into(), logs: vec![], descs: vec![], classes: vec![], ends: vec![] };
        let mut label = "fresh deployment";
        if p.populated {
            // v0 = [7, 8], v1 = [9] through store_vec (2 + 1 elements), then a read-back
            acc.body.push_str("    c.vec_store(0, 2, 7); c.vec_store(1, 1, 9);\n");
            w.v[0] = VecF { items: vec![7, 8], len_set: true };
            for f in 0..2 {
                w.dump_kind(K::Vec, f, &mut acc.logs);
            }
            w.v[1] = VecF { items: vec![9], len_set: true };
            for f in 0..2 {
                w.dump_kind(K::Vec, f, &mut acc.logs);
            }
            acc.classes.push("StorageVec::store_vec|start".into());
            acc.ends.push(acc.logs.len());
            label = "v0=[7,8],v1=[9]";
        }
        let before = all.len();
        dfs(p.k, p.full, &w, p.depth, 0, &mut acc, label, &mut all, &mut ex);
        let got = (all.len() - before) as u64;
        let closed = match p.k {
            K::Vec => count_paths(p.k, p.full, &w, p.depth, 0, &mut BTreeMap::new()),
            K::Map => (if p.full { 20u64 } else { 12 }).pow(p.depth),
            K::Bytes | K::Str => 16u64.pow(p.depth),
        };
        counts.push((format!("{} {} depth{}{}", p.k.name(), if p.full { "full" } else { "core" }, p.depth, if p.populated { " populated-start" } else { "" }), got, closed));
    }
    (all, ex, counts)
}

fn dump(a: &vhcore::Args) -> i32 {
    let thorough = a.rest.first().map(|s| s == "thorough").unwrap_or(false);
    let n: usize = a.rest.get(1).and_then(|s| s.parse().ok()).unwrap_or(3);
    let (all, _, counts) = generate(thorough);
    for c in &counts {
        println!("{c:?}");
    }
    let step = (all.len() / n.max(1)).max(1);
    for c in all.iter().step_by(step) {
        println!("--- {} [{}]\n{}expect {}", c.desc, c.class, c.body, match &c.expect {
            Exp::Ok(l) => format!("ok {}", show_logs(l)),
            Exp::Revert { code, logs } => format!("revert {code:?} {}", show_logs(logs)),
        });
    }
    0
}

fn run(a: &vhcore::Args) -> i32 {
    let mut rep = vhcore::Reporter::from_args(a, "model_checking");
    let thorough = a.tier == vhcore::Tier::Thorough;
    let t0 = std::time::Instant::now();
    let (all, ex, counts) = generate(thorough);
    for (name, got, closed) in &counts {
        eprintln!("[c28] {name}: {got} histories (closed form / independent count {closed})");
        if got != closed {
            vhcore::machinery_failure(&format!("enumerator produced {got} histories for `{name}` but the independent count is {closed}"));
        }
    }
    let mut all = all;
    let dev_stride = dev_stride_filter(&mut all, &mut rep);
    eprintln!("[c28] generated {} cases in {:.1}s", all.len(), t0.elapsed().as_secs_f64());
    let pool = Pool::new(a.jobs, vhcore::work_dir("C28/run"));
    let n = all.len();
    let first: Vec<&RawCase> = all.iter().step_by((n / 60).max(1)).take(60).collect();
    if let Err(e) = self_check_raw(&pool, "c28_selfcheck", &render(PRELUDE, &first)) {
        vhcore::machinery_failure(&e);
    }
    rep.set("modeF_equals_modeA", true);

    // every contract call site costs ~6 data-section words (measured: 700 call sites fit, 720 do
    // not); keep packages at <= 500 call sites, well below the 4096-word limit (known defect, C17)
    let max_calls = all.iter().map(|c| c.body.matches("c.").count()).max().unwrap_or(1).max(1);
    let batch = (500 / max_calls).clamp(20, 120);
    rep.set("tests_per_package", batch as u64);
    let rr = run_raw(&pool, "c28", PRELUDE, &all, batch, false);
    let mut outcomes = vhcore::Distinct::default();
    let mut validated = 0u64;
    let mut reverts_expected = 0u64;
    let mut revert_codes: BTreeMap<String, u64> = BTreeMap::new();
    let mut confirm_counter = 0usize;
    let mut seen = BTreeMap::new();
    for (c, r) in all.iter().zip(rr.results.iter()) {
        if let RawResult::Ran(o) = r {
            outcomes.add(&format!("{o:?}"));
            validated += c.steps as u64;
            if let vh_comp::engine::Outcome::Revert { code, .. } = o {
                *revert_codes.entry(format!("{code:#x}")).or_insert(0) += 1;
            }
        }
        if matches!(c.expect, Exp::Revert { .. }) {
            reverts_expected += 1;
        }
        judge(&mut rep, &pool, ID, PRELUDE, c, r, &mut confirm_counter, 1, &mut seen);
    }
    if outcomes.len() < 2 {
        vhcore::machinery_failure("vacuous: fewer than 2 distinct outcomes");
    }
    if !rr.worker_failures.is_empty() {
        eprintln!("[c28] worker failures: {:?}", rr.worker_failures);
    }
    let total_steps: u64 = all.iter().map(|c| c.steps as u64).sum();
    rep.set("evaluations", all.len() as u64);
    rep.set("states", ex.states.len() as u64);
    rep.set("transitions", total_steps);
    rep.set("traces_validated_against_impl", validated);
    rep.set("distinct_nontrivial", outcomes.len() as u64);
    rep.set("rule", "distinct observed test outcomes (ordered log payloads + revert status/code) over all generated histories");
    rep.set("histories_ending_in_a_documented_revert", reverts_expected);
    rep.set("observed_revert_codes", json!(revert_codes));
    rep.set("packages_built", rr.packages_built as u64);
    rep.set("plans", json!(counts.iter().map(|(n, g, _)| json!({"space": n, "histories": g})).collect::<Vec<_>>()));
    rep.set("operations_exercised", json!(ex.ops_seen));
    rep.set("children_cpu_seconds", children_cpu_seconds());
    rep.set("exhaustive", !dev_stride);
    if thorough {
        rep.cap("StorageVec: depth 4 only over the core alphabet (10 instances per field); the full alphabet (24 per field) to depth 3; populated start only with the core alphabet to depth 3. StorageMap: depth 4 over insert/remove/try_insert, depth 3 with get(k).write/clear added");
    } else {
        rep.cap("quick tier: StorageVec core alphabet (10 instances per field), StorageMap insert/remove/try_insert over 2 fields x 2 keys, StorageBytes/StorageString write_slice(7 lengths)/clear over 2 fields, all to depth 3");
    }
    for c in all.iter().step_by((all.len() / 10).max(1)) {
        rep.sample(json!({"history": c.desc, "class": c.class}));
    }
    rep.assume("default storage implementation (experimental_dynamic_storage = false); every history is one #[test] calling the contract through abi(S, CONTRACT_ID) on freshly deployed storage; values written by step k are k+1 (vec/map) or the byte pattern seed+j with seed = 16(k+1)+7*field (bytes/strings); only maximal histories are emitted (every prefix is observed by its extensions); a history ends at the first call that must revert");
    rep.assume("`clear()` return values follow the documentation: true iff every cleared slot (length slot and content slots) was previously set");
    rep.finish()
}

//! C05 — IR text round-trips. At EVERY stage of the real pipeline (initial IR, after each pass of
//! each round, final) of every batch of the compact corpus and of a few hand-written packages
//! (contract with storage + configurables, predicate, string/constant-rich script), hook H1b
//! prints the module, parses the text back (the parser verifies), prints again and compares up to
//! a bijective renaming of local value names; a second build substitutes the re-parsed module at
//! every stage, lets the remaining passes and the backend run, and must behave identically.
use serde_json::json;
use vh_comp::campaign::*;
use vh_comp::pool::Pool;
use vh_comp::worker::{BuildSpec, Request};

fn main() {
    let a = vhcore::parse_args();
    vh_comp::maybe_serve_worker(&a);
    let code = match a.cmd.as_str() {
        "check" => run(&a),
        "replay" => vh_comp::replay::replay_case(&a),
        _ => vhcore::machinery_failure("usage: c05 check C05 --tier quick|thorough"),
    };
    std::process::exit(code);
}

const CONTRACT: &str = r#"contract;
abi A {
    #[storage(read, write)]
    fn inc(by: u64) -> u64;
    fn echo(x: (u8, bool)) -> (u8, bool);
    fn name() -> str[4];
}
struct P { a: u64, b: b256 }
storage {
    c: u64 = 5,
    p: P = P { a: 1, b: 0x0101010101010101010101010101010101010101010101010101010101010101 },
    ns { d: u8 = 7 },
}
configurable { K: u64 = 3, S: str[4] = __to_str_array("fuel"), Q: P = P { a: 2, b: 0x00000000000000000000000000000000000000000000000000000000000000ff } }
impl A for Contract {
    #[storage(read, write)]
    fn inc(by: u64) -> u64 { let v = storage.c.read() + by + K + storage.p.read().a + storage::ns.d.read().as_u64(); storage.c.write(v); v }
    fn echo(x: (u8, bool)) -> (u8, bool) { x }
    fn name() -> str[4] { S }
}
#[test]
fn t0() { let a = abi(A, CONTRACT_ID); log(a.inc(2)); log(a.inc(1)); let r = a.echo((7u8, true)); log(r.0); log(Q.a); }
"#;

const STRINGS: &str = r#"script;
#[inline(never)]
fn opq<T>(x: T) -> T { asm(r: x) { r: T } }
struct W { s: str[7], n: u256, t: (u8, [u16; 3]) }
enum E { A: (), B: W }
const BIG: u256 = 0xffffffffffffffffffffffffffffffffffffffffffffffffffffffffffffffffu256;
const Z: b256 = 0x8000000000000000000000000000000000000000000000000000000000000001;
fn main() -> u64 { 0 }
#[test]
fn t0() {
    let s1 = "quote\" back\\slash nl\n tab\t nul\0 é😀";
    log(s1);
    // every 7-bit byte value as a RAW character of the literal (escape sequences are not decoded
    // into the IR constant, so control bytes incl. DEL 0x7f have to be written literally); each must
    // survive the IR text form (printable characters as they are, `\xHH` for everything else)
    let s2 = "	 !#$%&'()*+,-./0123456789:;<=>?@ABCDEFGHIJKLMNOPQRSTUVWXYZ[]^_`abcdefghijklmnopqrstuvwxyz{|}~";
    log(s2);
    let w = W { s: __to_str_array("a\"b\\c"), n: BIG, t: (255u8, [0u16, 1u16, 65535u16]) };
    let e = opq(E::B(w));
    match e { E::A => log(0u64), E::B(w) => { log(w.n); log(w.t.1[2]); log(w.s); } };
    log(Z);
    let mut i = 0; let mut acc = BIG; while i < 3 { acc = acc >> 1; i += 1; } log(acc);
}
"#;

const PREDICATE: &str = r#"predicate;
fn main(a: u64, b: bool) -> bool { if b { a == 42 } else { a != 42 } }
"#;

fn run(a: &vhcore::Args) -> i32 {
    let mut rep = vhcore::Reporter::from_args(a, "exploration");
    let thorough = a.tier == vhcore::Tier::Thorough;
    let cases = vh_comp::spaces::corpus_compact(thorough);
    let pool = Pool::new(a.jobs, vhcore::work_dir("C05"));
    let rt = |label: &str, release: bool, subst: bool| BuildSpec {
        label: label.into(),
        release,
        run_tests: true,
        roundtrip_stages: vec![usize::MAX],
        roundtrip_substitute: subst,
        ..Default::default()
    };
    // quick: the debug pipeline at every stage; thorough: the release pipeline (≈60 stages) as well
    let mut specs = vec![spec("debug", false), rt("debug-rt", false, false), rt("debug-subst", false, true)];
    if thorough {
        specs.extend([spec("release", true), rt("release-rt", true, false), rt("release-subst", true, true)]);
    }
    let res = run_campaign(&pool, "c05", &cases, 120, &specs);
    let mut stages = 0u64;
    let mut texts = vhcore::Distinct::default();
    let mut report_failures = |rep: &mut vhcore::Reporter, what: &str, label: &str, src: &str, o: &vh_comp::worker::BuildOut| {
        for f in &o.roundtrip_failures {
            let pass = f.split('`').nth(1).unwrap_or("");
            let msg = f.splitn(2, "`: ").nth(1).unwrap_or(f);
            rep.violation(
                &format!("C05|{}", classify(msg)),
                &format!("{what} [{label}] after pass `{pass}`: {msg}"),
                json!({"package_main_sw": src, "build": label, "failure": f}),
            );
        }
        for n in &o.roundtrip_notes {
            rep.violation(
                "C05|entry-fn-reparses-as-entry-entry_orig",
                &format!("{what} [{label}] {n}"),
                json!({"package_main_sw": src, "build": label, "note": n}),
            );
        }
    };
    // cases whose package shows the entry-flag asymmetry: substituting the re-parsed module there
    // turns every test entry into an "original entry", so the substituted pipeline is a different
    // program by construction; that consequence is reported once, not per case
    let mut entry_flag_affected: std::collections::BTreeSet<usize> = Default::default();
    for b in &res.batches {
        let src = vh_comp::gen::render_package(&cases[b.first..b.first + b.len]);
        for o in &b.outs {
            if o.roundtrip_stages_checked > 0 {
                stages += o.roundtrip_stages_checked as u64;
                texts.add(&(o.bytecode_hash.clone(), o.label.clone(), b.first));
                if !o.roundtrip_notes.is_empty() || o.roundtrip_failures.iter().any(|f| f.contains("entry_orig")) {
                    entry_flag_affected.extend(b.first..b.first + b.len);
                }
                if !o.label.ends_with("-subst") {
                    report_failures(&mut rep, &format!("batch@{}", cases[b.first].desc), &o.label, &src, o);
                }
            }
        }
    }
    // behaviour of the substituted pipeline == plain pipeline
    for cr in &res.per_case {
        let case = &cases[cr.case_idx];
        for (plain, sub) in [("debug", "debug-subst"), ("release", "release-subst")] {
            let (Some(x), Some(y)) = (cr.builds.get(plain), cr.builds.get(sub)) else { continue };
            if let Some((kind, msg)) = diff_builds(x, y) {
                if entry_flag_affected.contains(&cr.case_idx) {
                    rep.violation(
                        "C05|substituted-ir-unusable|consequence-of-entry-flag-asymmetry",
                        &format!("{} [{sub}] the pipeline continued from the re-parsed module differs ({kind}): {msg}", case.desc),
                        vh_comp::replay::case_replay_json(case, sub, sub.starts_with("release")),
                    );
                    continue;
                }
                rep.violation(
                    &format!("C05|substituted-ir-behaves-differently|{}|{kind}", case.space),
                    &format!("{} [{sub}] {msg}", case.desc),
                    vh_comp::replay::case_replay_json(case, sub, sub.starts_with("release")),
                );
            }
        }
    }
    // hand-written packages
    let extras = [("c05_contract", CONTRACT), ("c05_strings", STRINGS), ("c05_predicate", PREDICATE)];
    let reqs: Vec<Request> = extras
        .iter()
        .enumerate()
        .map(|(i, (n, s))| Request {
            id: i as u64,
            name: n.to_string(),
            src: s.to_string(),
            extra_files: vec![],
            with_std: true,
            existing_dir: None,
            builds: vec![spec("debug", false), rt("debug-rt", false, false), rt("debug-subst", false, true), spec("release", true), rt("release-rt", true, false), rt("release-subst", true, true)],
        })
        .collect();
    for (r, (name, src)) in pool.run(&reqs).into_iter().zip(extras.iter()) {
        match r {
            Err(e) => vhcore::machinery_failure(&format!("extra package {name}: {e}")),
            Ok(resp) => {
                for o in &resp.builds {
                    if !o.ok {
                        let affected = resp.builds.iter().any(|p| !p.roundtrip_notes.is_empty() || p.roundtrip_failures.iter().any(|f| f.contains("entry_orig")));
                        if o.label.ends_with("-subst") && affected {
                            rep.violation(
                                "C05|substituted-ir-unusable|consequence-of-entry-flag-asymmetry",
                                &format!("{name} [{}]: build continued from the re-parsed module failed: {}", o.label, o.error),
                                json!({"package_main_sw": src, "build": o.label}),
                            );
                        } else if o.label.ends_with("-subst") && resp.builds.iter().any(|p| p.ok && o.label.starts_with(&p.label)) {
                            rep.violation(
                                &format!("C05|substituted-ir-rejected|{name}"),
                                &format!("{name} [{}]: build with re-parsed IR failed: {} {:?}", o.label, o.error, o.panic),
                                json!({"package_main_sw": src, "build": o.label}),
                            );
                        } else if !o.label.ends_with("-subst") {
                            vhcore::machinery_failure(&format!("extra package {name} [{}] does not build: {} {:?}", o.label, o.error, o.panic));
                        }
                        continue;
                    }
                    stages += o.roundtrip_stages_checked as u64;
                    if !o.label.ends_with("-subst") {
                        report_failures(&mut rep, name, &o.label, src, o);
                    }
                }
                for (plain, sub) in [(0usize, 2usize), (3, 5)] {
                    let (p, s) = (&resp.builds[plain], &resp.builds[sub]);
                    let affected = resp.builds.iter().any(|q| !q.roundtrip_notes.is_empty());
                    if p.ok && s.ok && vh_comp::worker::tests_map(p) != vh_comp::worker::tests_map(s) {
                        rep.violation(
                            &if affected { "C05|substituted-ir-unusable|consequence-of-entry-flag-asymmetry".to_string() } else { format!("C05|substituted-ir-behaves-differently|{name}") },
                            &format!("{name} [{}]: tests behave differently after IR substitution", s.label),
                            json!({"package_main_sw": src, "build": s.label}),
                        );
                    }
                }
            }
        }
    }
    if stages == 0 {
        vhcore::machinery_failure("vacuous: no pipeline stage was round-tripped (hook H1b not effective?)");
    }
    rep.set("evaluations", stages);
    rep.set("distinct_nontrivial", texts.len() as u64);
    rep.set("rule", "evaluations = (package build, pipeline stage) pairs whose IR was printed, re-parsed (+verified) and re-printed; every stage of the debug and release pipelines of every batch of the compact corpus and of 3 hand-written packages; distinct_nontrivial = distinct (batch, profile) modules");
    rep.set("programs", cases.len() as u64 + 3);
    rep.set("exhaustive", true);
    rep.sample(json!({"stage_list_example": res.batches.first().and_then(|b| b.outs.get(1)).map(|o| o.passes_run.clone())}));
    rep.sample(json!({"first_case": cases[0].desc}));
    rep.assume("identity of the two texts is required up to a bijective renaming (per function) of local value names `v<N>v<M>`, which are derived from arena keys and cannot be reproduced by any parser");
    rep.finish()
}

/// Narrow class of a round-trip failure message.
fn norm_snippet(t: &str) -> String {
    // value names and numbers are arena artefacts: normalise them
    let mut out = String::new();
    let mut word = String::new();
    let flush = |word: &mut String, out: &mut String| {
        if !word.is_empty() {
            if vh_comp::irtext::is_value_name(word) {
                out.push_str("<v>");
            } else if word.chars().all(|c| c.is_ascii_digit()) {
                out.push('#');
            } else {
                out.push_str(word);
            }
            word.clear();
        }
    };
    for c in t.chars() {
        if c.is_ascii_alphanumeric() || c == '_' {
            word.push(c);
        } else {
            flush(&mut word, &mut out);
            out.push(c);
        }
    }
    flush(&mut word, &mut out);
    out
}

fn classify(msg: &str) -> String {
    if let Some(rest) = msg.strip_prefix("re-parse/verify failed: ") {
        if let Some(line) = rest.split(" [line: ").nth(1) {
            // shape of the offending line: IR keywords and punctuation kept, everything else `_`
            const KW: &[&str] = &[
                "global", "const", "slice", "string", "u8", "u64", "u256", "b256", "bool", "config", "fn", "entry", "entry_orig",
                "asm", "wide", "storage_key", "get_storage_key", "local", "mut", "ptr", "__ptr", "__slice", "call", "ret", "store",
                "load", "to", "cmp", "add", "sub", "mul", "div", "mod", "not", "and", "or", "xor", "lsh", "rsh", "never", "pub",
                "fallback", "undef", "get_local", "get_global", "get_config", "get_elem_ptr", "mem_copy_val", "mem_copy_bytes",
                "br", "cbr", "switch", "cast_ptr", "bitcast", "int_to_ptr", "ptr_to_int", "init_aggr", "contract_call", "log",
                "revert", "state_load_word", "state_store_word", "state_load_quad_word", "state_store_quad_word", "state_clear",
            ];
            let line = line.trim_end_matches(']');
            let mut shape: Vec<String> = vec![];
            for t in vh_comp::irtext::tokens(line) {
                let k = if t.chars().all(|c| c.is_ascii_alphanumeric() || c == '_') && !KW.contains(&t) { "_" } else { t };
                if !(k == "_" && shape.last().map(|l| l == "_").unwrap_or(false)) {
                    shape.push(k.to_string());
                }
            }
            return format!("reparse-fails|line-shape {}", shape.join(" "));
        }
        if rest.starts_with("Parse failure") {
            // keep what was expected and a few characters of what was found
            let exp = rest.split("expected ").nth(1).unwrap_or("").split("', found").next().unwrap_or("").chars().take(50).collect::<String>();
            let found: String = rest.split("found '").nth(1).unwrap_or("").chars().take(14).collect();
            return format!("reparse-fails|expected {}|found {}", norm_snippet(&exp), norm_snippet(&found.replace('\n', "\\n")));
        }
        return format!("reparsed-module-rejected|{}", rest.chars().take(60).collect::<String>());
    }
    if let Some(rest) = msg.strip_prefix("second print differs: ") {
        if rest.starts_with("token counts differ") {
            return "second-print-differs|token-count".into();
        }
        // "token N differs: `x` vs `y` (context…)"
        let x = rest.split('`').nth(1).unwrap_or("");
        let y = rest.split('`').nth(3).unwrap_or("");
        if x == "⏎" || y == "⏎" {
            return "second-print-differs|line-structure (asm ops without metadata merge into one op)".to_string();
        }
        if y == "mut" {
            return "second-print-differs|argument-printed-without-mut-reparses-as-mut".to_string();
        }
        if x == "mut" {
            return "second-print-differs|argument-printed-with-mut-reparses-without".to_string();
        }
        let norm = |t: &str| if t.chars().all(|c| c.is_ascii_digit()) { "<num>".to_string() } else if vh_comp::irtext::is_value_name(t) { "<value>".to_string() } else { t.chars().take(16).collect() };
        return format!("second-print-differs|`{}` vs `{}`", norm(x), norm(y));
    }
    format!("other|{}", msg.chars().take(40).collect::<String>())
}

//! C13 — Configurables patched at the reported offsets are observed.
//!
//! Declared space: every sequence of ≤ N configurables (quick N=2, thorough N=3) over the type menu
//! {u8,u64,bool,b256,u256,str[3],(u8,u64),struct{u8,u64},enum{A:u8,B:u64,C:()},[u8;3]} (order matters,
//! repetition allowed — two configurables of the same type carry identical default bytes), each
//! element flagged live (read by `main`) or dead (declared, never read). One script per sequence, built
//! once with artefacts; then for EVERY live configurable i and EVERY boundary replacement value v of its
//! type the reference ABI encoding of v is written into a copy of the bytecode at
//! `abi.configurables[i].offset`, the patched script is run in the VM (`Interpreter::transact`), and
//! `main` logs all live configurables in declaration order.
//! Oracle: configurable i reads v, every other live configurable reads its default; every live
//! configurable has an ABI entry; the prelude word at bytes 16..24 equals the minimum reported offset.

use serde_json::{json, Value};
use std::collections::BTreeMap;
use vh_comp::contractgen::*;
use vh_comp::pool::Pool;
use vh_comp::worker::{BuildOut, Request};

fn menu() -> Vec<Ty> {
    vec![
        Ty::U8,
        Ty::U64,
        Ty::Bool,
        Ty::B256,
        Ty::U256,
        Ty::Str(3),
        Ty::Tuple(vec![Ty::U8, Ty::U64]),
        Ty::Struct(vec![Ty::U8, Ty::U64]),
        Ty::Enum(vec![Ty::U8, Ty::U64, Ty::Unit]),
        Ty::Array(Box::new(Ty::U8), 3),
    ]
}

/// Compiled-in default of a configurable of type `t` (not among the replacement values, except bool).
fn default_of(t: &Ty, pos: usize) -> Val {
    match t {
        Ty::U8 => Val::U(0x5A),
        Ty::U64 => Val::U(0x1122_3344_5566_7788),
        Ty::Bool => Val::Bool(pos % 2 == 0),
        Ty::B256 => Val::Big([0x11; 32]),
        Ty::U256 => Val::Big([0x22; 32]),
        Ty::Str(n) => Val::Str(b"xyzwvu"[..*n].to_vec()),
        Ty::Tuple(m) | Ty::Struct(m) => Val::Agg(m.iter().map(|x| default_of(x, pos)).collect()),
        // default variant rotates with the position: widest (B: u64), narrowest (C: ()), A: u8 — the
        // compiler reserves the widest variant's encoded size whatever the default is (observed)
        Ty::Enum(_) => match pos % 3 {
            0 => Val::Variant(1, Box::new(Val::U(0x0102_0304_0506_0708))),
            1 => Val::Variant(2, Box::new(Val::Unit)),
            _ => Val::Variant(0, Box::new(Val::U(0x5B))),
        },
        Ty::Array(e, n) => Val::Agg((0..*n).map(|i| match **e {
            Ty::U8 => Val::U(0x31 + i as u64),
            _ => default_of(e, pos),
        }).collect()),
        other => panic!("no default for {other:?}"),
    }
}

#[derive(Clone, Debug)]
struct Conf {
    name: String,
    ty: Ty,
    live: bool,
    default: Val,
}

fn configurables(seq: &[(usize, bool)]) -> Vec<Conf> {
    let m = menu();
    seq.iter()
        .enumerate()
        .map(|(pos, (ti, live))| Conf {
            name: format!("C{pos}"),
            ty: m[*ti].clone(),
            live: *live,
            default: default_of(&m[*ti], pos),
        })
        .collect()
}

fn source(confs: &[Conf]) -> String {
    let mut decls = BTreeMap::new();
    for c in confs {
        c.ty.decls(&mut decls);
    }
    let mut s = String::from("script;\n\n");
    for d in decls.values() {
        s.push_str(d);
        s.push('\n');
    }
    if !confs.is_empty() {
        s.push_str("\nconfigurable {\n");
        for c in confs {
            s.push_str(&format!("    {}: {} = {},\n", c.name, c.ty.sway(), c.default.sway(&c.ty)));
        }
        s.push_str("}\n");
    }
    s.push_str("\nfn main() {\n    log(77u64);\n");
    for c in confs.iter().filter(|c| c.live) {
        s.push_str(&format!("    log({});\n", c.name));
    }
    s.push_str("}\n");
    s
}

/// All sequences of length ≤ n over menu × {live, dead}. Closed form Σ_{k≤n} 20^k.
fn sequences(n: usize) -> Vec<Vec<(usize, bool)>> {
    let m = menu().len();
    let elems: Vec<(usize, bool)> = (0..m).flat_map(|t| [(t, true), (t, false)]).collect();
    let mut out: Vec<Vec<(usize, bool)>> = vec![vec![]];
    let mut layer: Vec<Vec<(usize, bool)>> = vec![vec![]];
    for _ in 0..n {
        let mut next = vec![];
        for p in &layer {
            for e in &elems {
                let mut q = p.clone();
                q.push(*e);
                next.push(q);
            }
        }
        out.extend(next.iter().cloned());
        layer = next;
    }
    out
}

#[derive(Clone, Debug)]
struct Finding {
    key: String,
    what: String,
    /// (configurable name, replacement bytes hex) — None for build-level findings
    patch: Option<(String, String)>,
    expect_logs: Vec<String>,
    observed: String,
}

struct EvalStats {
    runs: u64,
    outcomes: vhcore::Distinct,
    offsets: vhcore::Distinct,
}

fn abi_offsets(abi_json: &str) -> Result<BTreeMap<String, u64>, String> {
    let v: Value = serde_json::from_str(abi_json).map_err(|e| format!("abi json: {e}"))?;
    let mut m = BTreeMap::new();
    if let Some(cs) = v["configurables"].as_array() {
        for c in cs {
            let name = c["name"].as_str().unwrap_or("").to_string();
            let off = c["offset"].as_u64().ok_or_else(|| format!("configurable {name} has no numeric offset"))?;
            if m.insert(name.clone(), off).is_some() {
                return Err(format!("configurable {name} listed twice in the ABI"));
            }
        }
    }
    Ok(m)
}

fn type_class(t: &Ty) -> String {
    match t {
        Ty::Struct(_) => "struct".into(),
        Ty::Tuple(_) => "tuple".into(),
        Ty::Enum(_) => "enum".into(),
        Ty::Array(..) => "array".into(),
        other => other.sway(),
    }
}

/// Patch-and-run every (live configurable, boundary value) of one built script.
fn evaluate(confs: &[Conf], b: &BuildOut, stats: &mut EvalStats, only: Option<&(String, String)>) -> Vec<Finding> {
    let mut out = vec![];
    let bytecode = match hex::decode(&b.bytecode_hex) {
        Ok(x) => x,
        Err(e) => {
            return vec![Finding { key: "bytecode-unreadable".into(), what: format!("{e}"), patch: None, expect_logs: vec![], observed: String::new() }]
        }
    };
    let offsets = match abi_offsets(&b.abi_json) {
        Ok(o) => o,
        Err(e) => return vec![Finding { key: "abi-configurables-malformed".into(), what: e, patch: None, expect_logs: vec![], observed: String::new() }],
    };
    let live: Vec<&Conf> = confs.iter().filter(|c| c.live).collect();
    let shape = format!("n{}live{}", confs.len(), live.len());
    // every live configurable must be reported
    for c in &live {
        match offsets.get(&c.name) {
            None => out.push(Finding {
                key: format!("live-configurable-without-abi-offset|{}", type_class(&c.ty)),
                what: format!("{} : {} is read by main but has no entry in abi.configurables {:?}", c.name, c.ty.sway(), offsets),
                patch: None, expect_logs: vec![], observed: format!("{offsets:?}"),
            }),
            Some(off) => {
                let len = c.default.abi(&c.ty).len() as u64;
                if off + len > bytecode.len() as u64 {
                    out.push(Finding {
                        key: "offset-beyond-bytecode".into(),
                        what: format!("{}: offset {off} + {len} > bytecode length {}", c.name, bytecode.len()),
                        patch: None, expect_logs: vec![], observed: String::new(),
                    });
                }
            }
        }
    }
    if !out.is_empty() {
        return out;
    }
    stats.offsets.add(&offsets);
    // prelude word
    if bytecode.len() >= 24 {
        let prelude = u64::from_be_bytes(bytecode[16..24].try_into().unwrap());
        if let Some(min) = offsets.values().min() {
            if prelude != *min {
                out.push(Finding {
                    key: format!("prelude-offset-differs-from-min-offset|{shape}"),
                    what: format!("prelude word at byte 16 = {prelude}, minimum reported configurable offset = {min} ({offsets:?})"),
                    patch: None, expect_logs: vec![], observed: format!("{prelude}"),
                });
            }
        }
    }
    let defaults: Vec<Vec<u8>> = live.iter().map(|c| c.default.abi(&c.ty)).collect();
    // unpatched run first: all defaults
    let mut jobs: Vec<(Option<usize>, Vec<u8>)> = vec![(None, vec![])];
    for (i, c) in live.iter().enumerate() {
        for v in c.ty.boundary(true) {
            jobs.push((Some(i), v.abi(&c.ty)));
        }
    }
    for (target, bytes) in jobs {
        if let Some((n, h)) = only {
            match target {
                Some(i) if &live[i].name == n && &hex::encode(&bytes) == h => {}
                _ => continue,
            }
        }
        let mut code = bytecode.clone();
        let mut expect: Vec<Vec<u8>> = vec![u64be(77)];
        expect.extend(defaults.iter().cloned());
        if let Some(i) = target {
            let off = offsets[&live[i].name] as usize;
            if off + bytes.len() > code.len() {
                continue;
            }
            code[off..off + bytes.len()].copy_from_slice(&bytes);
            expect[1 + i] = bytes.clone();
        }
        stats.runs += 1;
        let expect_hex: Vec<String> = expect.iter().map(hex::encode).collect();
        let patch = target.map(|i| (live[i].name.clone(), hex::encode(&bytes)));
        match run_script(&code) {
            Err(e) => out.push(Finding {
                key: "vm-setup-error".to_string(),
                what: e.clone(), patch, expect_logs: expect_hex, observed: e,
            }),
            Ok(r) => {
                let obs: Vec<String> = r.logs.iter().map(hex::encode).collect();
                stats.outcomes.add(&obs);
                if r.revert.is_some() || obs != expect_hex {
                    let (kind, tyc) = match target {
                        None => ("defaults-not-observed".to_string(), "none".to_string()),
                        Some(i) => {
                            let mine_ok = obs.get(1 + i) == Some(&expect_hex[1 + i]);
                            let others_ok = (0..live.len()).filter(|j| *j != i).all(|j| obs.get(1 + j) == Some(&expect_hex[1 + j]));
                            let k = if r.revert.is_some() {
                                "patched-run-reverted"
                            } else if !mine_ok && others_ok {
                                "patched-value-not-observed"
                            } else if mine_ok && !others_ok {
                                "other-configurable-changed"
                            } else {
                                "patched-value-not-observed+other-changed"
                            };
                            (k.to_string(), type_class(&live[i].ty))
                        }
                    };
                    out.push(Finding {
                        key: format!("{kind}|{tyc}"),
                        what: format!(
                            "configurables {:?}, offsets {:?}, patch {:?}: expected logs {:?}, observed {:?} state {}",
                            confs.iter().map(|c| format!("{}:{}{}", c.name, c.ty.sway(), if c.live { "" } else { "(dead)" })).collect::<Vec<_>>(),
                            offsets, patch, expect_hex, obs, r.state
                        ),
                        patch, expect_logs: expect_hex, observed: format!("{obs:?} {}", r.state),
                    });
                }
            }
        }
    }
    out
}

fn run(a: &vhcore::Args) -> i32 {
    let mut rep = vhcore::Reporter::from_args(a, "exploration");
    let thorough = a.tier == vhcore::Tier::Thorough;
    // C13_MAXLEN overrides the sequence length bound (4 = 168 421 scripts, ≈7 min on an idle 16-core box)
    let n = std::env::var("C13_MAXLEN")
        .ok()
        .and_then(|s| s.parse().ok())
        .unwrap_or(if thorough { 3 } else { 2 });
    let mut seqs = sequences(n);
    let closed: usize = (0..=n).map(|k| 20usize.pow(k as u32)).sum();
    if seqs.len() != closed {
        vhcore::machinery_failure(&format!("sequence enumerator produced {} ≠ {closed}", seqs.len()));
    }
    let limit: Option<usize> = std::env::var("C13_LIMIT").ok().and_then(|s| s.parse().ok());
    if let Some(l) = limit {
        let step = (seqs.len() / l.max(1)).max(1);
        seqs = seqs.into_iter().step_by(step).collect();
    }
    // profiles: quick = debug; thorough = debug and release (release drops dead configurables from the
    // data section and the ABI and runs the optimizer over the decode-and-read path)
    let profiles: Vec<bool> = if thorough { vec![false, true] } else { vec![false] };
    let confs: Vec<Vec<Conf>> = seqs.iter().map(|s| configurables(s)).collect();
    let srcs: Vec<String> = confs.iter().map(|c| source(c)).collect();
    let reqs: Vec<Request> = srcs
        .iter()
        .enumerate()
        .map(|(i, s)| {
            let builds = profiles
                .iter()
                .map(|&rel| spec(if rel { "F-release" } else { "F-debug" }, rel, false, true, false))
                .collect();
            request(i as u64, &format!("c13_p{i}"), s, builds)
        })
        .collect();
    let mut pool = Pool::new(a.jobs, vhcore::work_dir("C13/pool"));
    pool.recycle_after = 300;
    // wall-clock watchdog only (never a verdict); generous because the box may be heavily oversubscribed
    pool.timeout = std::time::Duration::from_secs(3600);

    let sc_idx: Vec<usize> = {
        let l = reqs.len();
        let mut idx = vec![0, 1.min(l - 1), l / 3, l / 2, (2 * l) / 3, l - 1];
        idx.dedup();
        idx
    };
    let mut reqs = reqs;
    attach_self_check(&mut reqs, &sc_idx);

    let t0 = std::time::Instant::now();
    let (results, retried) = run_with_retry(&pool, &reqs);
    rep.set("requests_retried_after_worker_failure", retried as u64);
    let build_wall = t0.elapsed().as_secs_f64();
    match verify_self_check(&reqs, &results, &sc_idx) {
        Ok(k) => rep.set("modeF_equals_modeA_packages", k as u64),
        Err(e) => vhcore::machinery_failure(&e),
    }

    // patch + run in parallel in this process
    let t1 = std::time::Instant::now();
    let per: Vec<(Vec<Finding>, u64, vhcore::Distinct, vhcore::Distinct, u64)> = vhcore::par_map_idx(reqs.len(), a.jobs, |i| {
        let mut st = EvalStats { runs: 0, outcomes: Default::default(), offsets: Default::default() };
        match &results[i] {
            Err(e) => (
                vec![Finding { key: "worker-died".into(), what: e.clone(), patch: None, expect_logs: vec![], observed: String::new() }],
                0, st.outcomes, st.offsets, 0,
            ),
            Ok(r) => {
                let mut all = vec![];
                let mut ms = 0;
                for (pi, &rel) in profiles.iter().enumerate() {
                    let b = &r.builds[pi];
                    ms += b.millis;
                    let mut fs = if !b.ok {
                        vec![Finding { key: build_failure_key(b), what: build_failure_text(b), patch: None, expect_logs: vec![], observed: String::new() }]
                    } else {
                        evaluate(&confs[i], b, &mut st, None)
                    };
                    if rel {
                        for f in fs.iter_mut() {
                            f.key.push_str("|release");
                        }
                    }
                    all.extend(fs);
                }
                (all, st.runs, st.outcomes, st.offsets, ms)
            }
        }
    });
    let run_wall = t1.elapsed().as_secs_f64();

    let mut runs = 0u64;
    let mut outcomes = vhcore::Distinct::default();
    let mut offset_maps = vhcore::Distinct::default();
    let mut sum_ms = 0u64;
    let mut classes: BTreeMap<String, Vec<(usize, Finding)>> = BTreeMap::new();
    for (i, (fs, r, o, offs, ms)) in per.into_iter().enumerate() {
        runs += r;
        outcomes.merge(o);
        offset_maps.merge(offs);
        sum_ms += ms;
        for f in fs {
            classes.entry(f.key.clone()).or_default().push((i, f));
        }
        if i % (reqs.len() / 10 + 1) == 0 {
            rep.sample(json!({"configurables": confs[i].iter().map(|c| format!("{}:{}{}", c.name, c.ty.sway(), if c.live { "" } else { " (dead)" })).collect::<Vec<_>>(), "patched_runs": r}));
        }
    }

    // confirm one representative per class alone in Mode A (fresh worker process, plain forc path)
    let mut confirmed: std::collections::BTreeSet<String> = Default::default();
    for round in 0..3 {
        let pending: Vec<(&String, &(usize, Finding), usize)> = classes
            .iter()
            .filter(|(k, l)| !confirmed.contains(*k) && l.len() > round)
            .map(|(k, l)| (k, &l[round], l.len()))
            .collect();
        if pending.is_empty() {
            break;
        }
        let items: Vec<(String, String, vh_comp::worker::BuildSpec)> = pending
            .iter()
            .enumerate()
            .map(|(n, (key, (i, _), _))| (format!("c13_alone_r{round}_{n}"), srcs[*i].clone(), spec("A", key.ends_with("|release"), false, true, true)))
            .collect();
        let outs = build_many_mode_a(&pool, &items);
        for (((key, (i, f), n_cases), out), (name, src, _)) in pending.iter().zip(outs).zip(items.iter()) {
            let release = key.ends_with("|release");
            let base_key = key.trim_end_matches("|release");
            match out {
                Ok(b) => {
                    let still: Vec<Finding> = if !b.ok {
                        vec![Finding { key: build_failure_key(&b), what: build_failure_text(&b), patch: None, expect_logs: vec![], observed: String::new() }]
                    } else {
                        let mut st = EvalStats { runs: 0, outcomes: Default::default(), offsets: Default::default() };
                        evaluate(&confs[*i], &b, &mut st, f.patch.as_ref())
                    };
                    if let Some(s) = still.iter().find(|s| s.key == base_key) {
                        let replay = json!({"kind": "patch", "name": name, "release": release, "src": src, "seq": seqs[*i],
                                            "patch": s.patch, "expect_logs": s.expect_logs, "observed": s.observed, "key": base_key});
                        for _ in 0..*n_cases {
                            rep.violation(key, &s.what, replay.clone());
                        }
                        confirmed.insert((*key).clone());
                    }
                }
                Err(e) => {
                    rep.violation(&format!("{key}|worker-died-in-mode-a"), &format!("{}: {e}", f.what), json!({"kind": "patch", "name": name, "release": release, "src": src, "seq": seqs[*i]}));
                    confirmed.insert((*key).clone());
                }
            }
        }
    }
    let mut unconfirmed = vec![];
    for (key, list) in &classes {
        if !confirmed.contains(key) {
            unconfirmed.push(format!("{key} ({} cases, e.g. {})", list.len(), vhcore::truncate(&list[0].1.what, 300)));
        }
    }
    if !unconfirmed.is_empty() {
        vhcore::machinery_failure(&format!("findings that do not reproduce alone in Mode A: {unconfirmed:?}"));
    }
    if classes.is_empty() && outcomes.len() < 2 {
        vhcore::machinery_failure("fewer than 2 distinct outcomes");
    }
    rep.set("evaluations", runs);
    rep.set("builds", (reqs.len() * profiles.len()) as u64);
    rep.set("scripts", reqs.len() as u64);
    rep.set("patched_runs", runs);
    rep.set("distinct_nontrivial", outcomes.len() as u64);
    rep.set("rule", "distinct observed log vectors of patched runs");
    rep.set("distinct_offset_maps", offset_maps.len() as u64);
    rep.set("build_wall_s", build_wall);
    rep.set("patch_and_run_wall_s", run_wall);
    rep.set("sum_worker_build_ms", sum_ms);
    rep.set("jobs", a.jobs as u64);
    rep.set("profile", if thorough { "debug+release" } else { "debug" });
    rep.set("space", format!("all sequences of ≤{n} configurables over 10 types x {{live, dead}} = {closed} scripts; every live configurable x every boundary value of its type (rich set) + one unpatched run per script"));
    rep.set("exhaustive", limit.is_none());
    if limit.is_some() {
        rep.cap("C13_LIMIT debugging subset");
    }
    rep.assume("enum configurables: the default variant rotates with the position (widest / unit / u8) and every variant is used as replacement, so replacement encodings may be longer than the default's encoding");
    rep.assume("scripts are run like the e2e harness does (Script tx, one coin input, Interpreter::transact); configurables are observed through log() in main");
    rep.finish()
}

fn replay(a: &vhcore::Args) -> i32 {
    let path = a.replay.clone().unwrap_or_else(|| vhcore::machinery_failure("replay needs a path"));
    let txt = std::fs::read_to_string(&path).unwrap_or_else(|e| vhcore::machinery_failure(&format!("{e}")));
    let v: Value = serde_json::from_str(&txt).unwrap_or_else(|e| vhcore::machinery_failure(&format!("{e}")));
    let r = &v["replay"];
    println!("replaying {}: {}", v["key"], vhcore::truncate(v["what"].as_str().unwrap_or(""), 500));
    let seq: Vec<(usize, bool)> = serde_json::from_value(r["seq"].clone()).unwrap_or_default();
    let confs = configurables(&seq);
    let src = r["src"].as_str().unwrap_or("");
    let b = build_in_process("C13/replay", r["name"].as_str().unwrap_or("replay_pkg"), src, spec("replay", r["release"].as_bool().unwrap_or(false), false, true, true));
    if !b.ok {
        println!("replay: build fails: {}", build_failure_text(&b));
        return 1;
    }
    let patch: Option<(String, String)> = serde_json::from_value(r["patch"].clone()).ok().flatten();
    let mut st = EvalStats { runs: 0, outcomes: Default::default(), offsets: Default::default() };
    let fs = evaluate(&confs, &b, &mut st, patch.as_ref());
    let key = r["key"].as_str().unwrap_or("");
    for f in &fs {
        println!("finding {}: {}", f.key, vhcore::truncate(&f.what, 600));
    }
    if fs.iter().any(|f| f.key == key) {
        println!("replay: still violates");
        1
    } else {
        println!("replay: no longer violates ({} runs)", st.runs);
        0
    }
}

fn main() {
    let a = vhcore::parse_args();
    vh_comp::maybe_serve_worker(&a);
    vh_comp::install_panic_hook();
    let code = match a.cmd.as_str() {
        "check" => run(&a),
        "replay" => replay(&a),
        "try" => try_file("C13/try", &a.rest[0], a.rest.get(1).map(|s| s == "release").unwrap_or(false)),
        "gen" => {
            // gen t,l t,l …   (type index, live 0|1)
            let seq: Vec<(usize, bool)> = a.rest.iter().map(|x| {
                let p: Vec<usize> = x.split(',').map(|y| y.parse().unwrap()).collect();
                (p[0], p[1] == 1)
            }).collect();
            println!("{}", source(&configurables(&seq)));
            0
        }
        "probe-enum" => {
            // informational: enum configurable whose default is the NARROWEST variant, patched with a wider one
            let e = Ty::Enum(vec![Ty::U8, Ty::U64, Ty::Unit]);
            let mut decls = BTreeMap::new();
            e.decls(&mut decls);
            let src = format!(
                "script;\n{}\nconfigurable {{ C0: {} = {}::C, C1: u64 = 1234605616436508552u64, }}\nfn main() {{ log(77u64); log(C0); log(C1); }}\n",
                decls.values().cloned().collect::<Vec<_>>().join("\n"), e.sway(), e.sway()
            );
            println!("{src}");
            let b = build_in_process("C13/probe", "c13_probe", &src, spec("probe", false, false, true, true));
            let offs = abi_offsets(&b.abi_json).unwrap();
            println!("ok={} offsets={offs:?} len={}", b.ok, b.bytecode_len);
            let code = hex::decode(&b.bytecode_hex).unwrap();
            for v in [Val::Variant(2, Box::new(Val::Unit)), Val::Variant(0, Box::new(Val::U(255))), Val::Variant(1, Box::new(Val::U(u64::MAX)))] {
                let bytes = v.abi(&e);
                let mut c = code.clone();
                let off = offs["C0"] as usize;
                c[off..off + bytes.len()].copy_from_slice(&bytes);
                let r = run_script(&c).unwrap();
                println!("patch C0 := {} ({} bytes): state {} logs {:?}", v.sway(&e), bytes.len(), r.state, r.logs.iter().map(hex::encode).collect::<Vec<_>>());
            }
            0
        }
        "bench" => {
            let seqs = sequences(2);
            let mut w = vh_comp::worker::Worker::new(vhcore::work_dir("C13/bench"));
            let mut acc = 0u64;
            for n in 0..400usize {
                let i = (n * 7) % seqs.len();
                let src = source(&configurables(&seqs[i]));
                let r = w.handle(&request(n as u64, &format!("c13_b{n}"), &src, vec![spec("F", false, false, true, false)]));
                acc += r.builds[0].millis;
                if n % 25 == 0 {
                    println!("{n}: ok={} this={}ms sum-of-last-25={}ms", r.builds[0].ok, r.builds[0].millis, acc);
                    acc = 0;
                }
            }
            0
        }
        "one" => {
            // one t,l t,l … : build in-process (Mode A) and evaluate, printing everything
            let seq: Vec<(usize, bool)> = a.rest.iter().map(|x| {
                let p: Vec<usize> = x.split(',').map(|y| y.parse().unwrap()).collect();
                (p[0], p[1] == 1)
            }).collect();
            let confs = configurables(&seq);
            let src = source(&confs);
            println!("{src}");
            let b = build_in_process("C13/one", "c13_one", &src, spec("one", false, false, true, true));
            println!("ok={} {} abi offsets={:?} len={}", b.ok, if b.ok { String::new() } else { build_failure_text(&b) }, abi_offsets(&b.abi_json), b.bytecode_len);
            let mut st = EvalStats { runs: 0, outcomes: Default::default(), offsets: Default::default() };
            let fs = evaluate(&confs, &b, &mut st, None);
            println!("runs={} distinct outcomes={} findings={}", st.runs, st.outcomes.len(), fs.len());
            for f in fs.iter().take(10) {
                println!("  {}: {}", f.key, f.what);
            }
            0
        }
        _ => vhcore::machinery_failure("usage: c13 check C13 --tier quick|thorough | replay C13 <path>"),
    };
    std::process::exit(code);
}

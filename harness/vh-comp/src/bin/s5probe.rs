//! Scratch: run a slice of S5 and print results.
fn main() {
    let a = vhcore::parse_args();
    vh_comp::maybe_serve_worker(&a);
    let step: usize = a.rest.first().and_then(|s| s.parse().ok()).unwrap_or(30);
    let work = vhcore::work_dir("s5probe");
    let pool = vh_comp::pool::Pool::new(a.jobs.min(4), work.join("pool"));
    let (res, skipped) = vh_comp::s5::run_s5(&pool, &work, step);
    println!("skipped {}", skipped.len());
    let mut reasons: std::collections::BTreeMap<String, usize> = Default::default();
    for (_, r) in &skipped { *reasons.entry(r.clone()).or_default() += 1; }
    println!("{reasons:?}");
    for (c, r) in &res {
        match r {
            Err(e) => println!("{} WORKER {e}", c.name),
            Ok(r) => for b in &r.builds {
                let ok = b.script.as_ref().map(|s| s.outcome == c.expect).unwrap_or(false);
                println!("{} [{}] ok={} build_ok={} {} {:?} expect {:?} {}", c.name, b.label, ok, b.ok, b.error.chars().take(80).collect::<String>(), b.script.as_ref().map(|s| &s.outcome), c.expect, b.run_error.chars().take(80).collect::<String>());
            }
        }
    }
}

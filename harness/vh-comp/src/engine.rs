//! "Mode F" (DESIGN.md §2.5): drive the real forc build path (`forc_pkg::dependency_namespace` +
//! `forc_pkg::compile`, the two public functions `forc_pkg::build` itself loops over) while keeping
//! one `Engines` and the compiled namespaces of library dependencies (std) alive across packages,
//! so a generated package costs milliseconds instead of seconds. "Mode A" is the plain
//! `forc_pkg::build_with_options` path; `self_check` requires both to produce identical artefacts.

use anyhow::{anyhow, bail, Result};
use forc_pkg as pkg;
use forc_pkg::manifest::GenericManifestFile;
use forc_pkg::{BuildPlan, BuildProfile, BuiltPackage, PackageDescriptor};
use std::collections::{HashMap, HashSet};
use std::path::{Path, PathBuf};
use std::sync::Arc;
use sway_core::language::parsed::TreeType;
use sway_core::{namespace, BuildTarget, DbgGeneration, Engines};
use sway_features::ExperimentalFeatures;

/// Pipeline variant selected through the cfg(fuellabs_sway_verif) seams.
#[derive(Default)]
pub struct Variant {
    pub skip_asm_opt: bool,
    pub check_regalloc: bool,
    /// Edits the flattened IR pass list (H1a).
    pub edit_passes: Option<Box<dyn Fn(Vec<&'static str>) -> Vec<&'static str>>>,
    /// Observes / replaces the IR after every pass (H1b).
    pub observer: Option<Box<dyn FnMut(&str, &mut sway_ir::Context) -> bool>>,
    pub rounds: Option<usize>,
}

pub struct Compiled {
    pub built: BuiltPackage,
    pub plan: BuildPlan,
    pub regalloc_reports: Vec<String>,
    pub regalloc_stats: (u64, u64, u64),
}

/// One compilation context: an `Engines` plus the cached namespaces of library dependencies,
/// valid for ONE (profile name, experimental set) — type checking depends on `DbgGeneration`.
pub struct Ctx {
    pub release: bool,
    pub engines: Engines,
    lib_cache: HashMap<PathBuf, namespace::Package>,
    pub packages_compiled: usize,
}

pub struct FailedBuild {
    pub message: String,
    /// rendered diagnostics (errors) when the compiler reported them through the handler
    pub diagnostics: Vec<String>,
}

impl Ctx {
    pub fn new(release: bool) -> Ctx {
        Ctx {
            release,
            engines: Engines::default(),
            lib_cache: HashMap::new(),
            packages_compiled: 0,
        }
    }

    pub fn profile(&self, plan: &BuildPlan, tests: bool) -> BuildProfile {
        let name = if self.release {
            BuildProfile::RELEASE
        } else {
            BuildProfile::DEBUG
        };
        let profiles: HashMap<String, BuildProfile> = plan.build_profiles().collect();
        let mut p = profiles.get(name).cloned().unwrap_or_default();
        p.name = name.into();
        p.include_tests |= tests;
        p.terse = true;
        p
    }

    /// Compile the package in `dir` the way `forc_pkg::build` does, reusing cached library
    /// namespaces. Returns the `BuiltPackage` of the (single) member.
    pub fn compile_dir(&mut self, dir: &Path, tests: bool, variant: Variant) -> Result<Compiled> {
        let opts = pkg::PkgOpts {
            path: Some(dir.to_string_lossy().to_string()),
            offline: true,
            terse: true,
            locked: false,
            output_directory: None,
            ipfs_node: Default::default(),
        };
        let plan = BuildPlan::from_pkg_opts(&opts)?;
        let profile = self.profile(&plan, tests);
        let built = self.build_plan(&plan, &profile, variant)?;
        Ok(built)
    }

    fn build_plan(&mut self, plan: &BuildPlan, profile: &BuildProfile, variant: Variant) -> Result<Compiled> {
        let target = BuildTarget::Fuel;
        let outputs: HashSet<pkg::NodeIx> = plan.member_nodes().collect();
        if outputs.len() != 1 {
            bail!("engine supports single-member plans only");
        }
        let output = *outputs.iter().next().unwrap();
        let required: HashSet<pkg::NodeIx> = plan.node_deps(output).collect();
        let engines = &self.engines;
        let include_tests = profile.include_tests;
        let mut contract_id_value: Option<String> = None;
        let mut lib_namespace_map: HashMap<pkg::NodeIx, namespace::Package> = HashMap::default();
        let mut compiled_contract_deps: pkg::CompiledContractDeps = HashMap::new();
        let mut result: Option<BuiltPackage> = None;
        let mut regalloc_reports = vec![];
        let mut regalloc_stats = (0, 0, 0);
        let mut variant = Some(variant);

        for &node in plan
            .compilation_order()
            .iter()
            .filter(|n| required.contains(n))
        {
            let mut source_map = sway_core::source_map::SourceMap::new();
            let pinned = &plan.graph()[node];
            let manifest = &plan.manifest_map()[&pinned.id()];
            let is_member = plan.member_nodes().any(|m| m == node);
            let dbg_generation = match (profile.is_release(), manifest.project.force_dbg_in_release) {
                (true, Some(true)) | (false, _) => DbgGeneration::Full,
                (true, _) => DbgGeneration::None,
            };
            let experimental = ExperimentalFeatures::new(&manifest.project.experimental, &[], &[])
                .map_err(|e| anyhow!("{e}"))?;

            // Library dependency already compiled in this context → reuse its namespace.
            if !is_member {
                if let Some(ns) = self.lib_cache.get(manifest.dir()) {
                    lib_namespace_map.insert(node, ns.clone());
                    continue;
                }
            }

            let descriptor = PackageDescriptor {
                name: pinned.name.clone(),
                target,
                pinned: pinned.clone(),
                manifest_file: manifest.clone(),
            };
            let is_contract_dependency = plan
                .graph()
                .edges_directed(node, petgraph::Direction::Incoming)
                .any(|e| matches!(e.weight().kind, pkg::DepKind::Contract { .. }));

            let bytecode_without_tests = if (include_tests
                && matches!(manifest.program_type(), Ok(TreeType::Contract)))
                || is_contract_dependency
            {
                let profile_nt = BuildProfile {
                    include_tests: false,
                    ..profile.clone()
                };
                let program_id = engines
                    .se()
                    .get_or_create_program_id_from_manifest_path(&manifest.entry_path());
                let dep_namespace = pkg::dependency_namespace(
                    &lib_namespace_map,
                    &compiled_contract_deps,
                    plan.graph(),
                    node,
                    engines,
                    None,
                    program_id,
                    experimental,
                    dbg_generation,
                )
                .map_err(|errs| anyhow!("dependency namespace: {} errors", errs.len()))?;
                let compiled_without_tests = pkg::compile(
                    &descriptor,
                    &profile_nt,
                    engines,
                    dep_namespace,
                    &mut source_map,
                    experimental,
                    dbg_generation,
                )?;
                if is_contract_dependency {
                    compiled_contract_deps.insert(
                        node,
                        pkg::CompiledContractDependency {
                            bytecode: compiled_without_tests.bytecode.bytes.clone(),
                            storage_slots: compiled_without_tests.storage_slots.clone(),
                        },
                    );
                } else {
                    let contract_id = pkg::contract_id(
                        &compiled_without_tests.bytecode.bytes,
                        compiled_without_tests.storage_slots.clone(),
                        &fuel_tx::Salt::zeroed(),
                    );
                    contract_id_value = Some(format!("0x{contract_id}"));
                }
                Some(compiled_without_tests.bytecode)
            } else {
                None
            };

            let node_profile = if !is_member {
                BuildProfile {
                    include_tests: false,
                    ..profile.clone()
                }
            } else {
                profile.clone()
            };
            let program_id = engines
                .se()
                .get_or_create_program_id_from_manifest_path(&manifest.entry_path());
            let dep_namespace = pkg::dependency_namespace(
                &lib_namespace_map,
                &compiled_contract_deps,
                plan.graph(),
                node,
                engines,
                contract_id_value.clone(),
                program_id,
                experimental,
                dbg_generation,
            )
            .map_err(|errs| anyhow!("dependency namespace: {} errors", errs.len()))?;

            // Pipeline variant only applies to the member under test.
            let installed = if is_member {
                install_variant(variant.take().unwrap_or_default())
            } else {
                false
            };
            let compiled = pkg::compile(
                &descriptor,
                &node_profile,
                engines,
                dep_namespace,
                &mut source_map,
                experimental,
                dbg_generation,
            );
            if installed {
                let (r, s) = uninstall_variant();
                regalloc_reports = r;
                regalloc_stats = s;
            }
            let compiled = compiled?;

            if let TreeType::Library = compiled.tree_type {
                if !is_member {
                    self.lib_cache
                        .insert(manifest.dir().to_path_buf(), compiled.namespace.clone());
                }
                lib_namespace_map.insert(node, compiled.namespace);
            }
            source_map.insert_dependency(descriptor.manifest_file.dir());
            let built_pkg = BuiltPackage {
                descriptor,
                program_abi: compiled.program_abi,
                storage_slots: compiled.storage_slots,
                source_map: compiled.source_map,
                tree_type: compiled.tree_type,
                bytecode: compiled.bytecode,
                warnings: compiled.warnings,
                bytecode_without_tests,
            };
            if node == output {
                result = Some(built_pkg);
            }
        }
        self.packages_compiled += 1;
        let built = result.ok_or_else(|| anyhow!("member was not built"))?;
        Ok(Compiled {
            built,
            plan: plan.clone(),
            regalloc_reports,
            regalloc_stats,
        })
    }

    /// Collect diagnostics (errors, warnings) with spans for the member package in `dir` by
    /// calling the same sway_core entry points as `forc_pkg::compile` with our own `Handler`.
    /// Library dependencies come from the cache (compiled through the normal path when missing).
    pub fn diagnose_dir(
        &mut self,
        dir: &Path,
        tests: bool,
    ) -> Result<(Vec<crate::worker::Diag>, Vec<crate::worker::Diag>)> {
        use crate::worker::Diag;
        let opts = pkg::PkgOpts {
            path: Some(dir.to_string_lossy().to_string()),
            offline: true,
            terse: true,
            ..Default::default()
        };
        let plan = BuildPlan::from_pkg_opts(&opts)?;
        let profile = self.profile(&plan, tests);
        let output = plan.member_nodes().next().ok_or_else(|| anyhow!("no member"))?;
        let required: HashSet<pkg::NodeIx> = plan.node_deps(output).collect();
        let mut lib_namespace_map: HashMap<pkg::NodeIx, namespace::Package> = HashMap::default();
        let compiled_contract_deps: pkg::CompiledContractDeps = HashMap::new();
        for &node in plan.compilation_order().iter().filter(|n| required.contains(n)) {
            let pinned = &plan.graph()[node];
            let manifest = &plan.manifest_map()[&pinned.id()];
            let dbg_generation = match (profile.is_release(), manifest.project.force_dbg_in_release) {
                (true, Some(true)) | (false, _) => DbgGeneration::Full,
                (true, _) => DbgGeneration::None,
            };
            let experimental = ExperimentalFeatures::new(&manifest.project.experimental, &[], &[])
                .map_err(|e| anyhow!("{e}"))?;
            let engines = &self.engines;
            let program_id = engines
                .se()
                .get_or_create_program_id_from_manifest_path(&manifest.entry_path());
            if node != output {
                if let Some(ns) = self.lib_cache.get(manifest.dir()) {
                    lib_namespace_map.insert(node, ns.clone());
                    continue;
                }
                let descriptor = PackageDescriptor {
                    name: pinned.name.clone(),
                    target: BuildTarget::Fuel,
                    pinned: pinned.clone(),
                    manifest_file: manifest.clone(),
                };
                let ns = pkg::dependency_namespace(
                    &lib_namespace_map,
                    &compiled_contract_deps,
                    plan.graph(),
                    node,
                    engines,
                    None,
                    program_id,
                    experimental,
                    dbg_generation,
                )
                .map_err(|e| anyhow!("dependency namespace: {} errors", e.len()))?;
                let mut sm = sway_core::source_map::SourceMap::new();
                let p = BuildProfile {
                    include_tests: false,
                    ..profile.clone()
                };
                let c = pkg::compile(&descriptor, &p, engines, ns, &mut sm, experimental, dbg_generation)?;
                self.lib_cache
                    .insert(manifest.dir().to_path_buf(), c.namespace.clone());
                lib_namespace_map.insert(node, c.namespace);
                continue;
            }
            let is_contract = matches!(manifest.program_type(), Ok(TreeType::Contract));
            let ns = pkg::dependency_namespace(
                &lib_namespace_map,
                &compiled_contract_deps,
                plan.graph(),
                node,
                engines,
                if is_contract && tests {
                    Some(format!("0x{}", "00".repeat(32)))
                } else {
                    None
                },
                program_id,
                experimental,
                dbg_generation,
            )
            .map_err(|e| anyhow!("dependency namespace: {} errors", e.len()))?;
            let entry_path = manifest.entry_path();
            let cfg = pkg::sway_build_config(
                manifest.dir(),
                &entry_path,
                BuildTarget::Fuel,
                &profile,
                dbg_generation,
            )?;
            let handler = sway_error::handler::Handler::default();
            let source = manifest.entry_string()?;
            let ast = sway_core::compile_to_ast(
                &handler,
                engines,
                source,
                ns,
                Some(&cfg),
                &pinned.name,
                None,
                experimental,
            );
            if let Ok(programs) = ast {
                if programs.typed.is_ok() && !handler.has_errors() {
                    if let Ok(mut asm) =
                        sway_core::ast_to_asm(&handler, engines, &programs, &cfg, experimental)
                    {
                        let mut sm = sway_core::source_map::SourceMap::new();
                        let _ = sway_core::asm_to_bytecode(&handler, &mut asm, &mut sm, engines.se(), &cfg);
                    }
                }
            }
            let (errors, warnings, _infos) = handler.consume();
            let errs = errors
                .iter()
                .map(|e| {
                    use sway_types::Spanned;
                    let sp = e.span();
                    Diag {
                        message: format!("{e}"),
                        start: sp.start(),
                        end: sp.end(),
                        is_error: true,
                    }
                })
                .collect();
            let warns = warnings
                .iter()
                .map(|w| Diag {
                    message: format!("{}", w.warning_content),
                    start: w.span.start(),
                    end: w.span.end(),
                    is_error: false,
                })
                .collect();
            return Ok((errs, warns));
        }
        bail!("member not reached")
    }

    /// Drop everything the member package left in the engines (keeps cached libraries).
    pub fn clear_member(&mut self, dir: &Path) {
        if let Ok(m) = pkg::manifest::PackageManifestFile::from_dir(dir) {
            let pid = self
                .engines
                .se()
                .get_or_create_program_id_from_manifest_path(&m.entry_path());
            self.engines.clear_program(&pid);
        }
    }
}

fn install_variant(v: Variant) -> bool {
    sway_core::verif::set_skip_asm_opt(v.skip_asm_opt);
    sway_core::verif::set_check_regalloc(v.check_regalloc);
    let _ = sway_core::verif::take_regalloc_reports();
    let _ = sway_core::verif::take_regalloc_stats();
    if v.edit_passes.is_some() || v.observer.is_some() || v.rounds.is_some() {
        sway_ir::pass_manager::verif::set_controller(Some(sway_ir::pass_manager::verif::Controller {
            edit_passes: v.edit_passes,
            observer: v.observer,
            rounds: v.rounds,
        }));
    }
    true
}

fn uninstall_variant() -> (Vec<String>, (u64, u64, u64)) {
    sway_core::verif::set_skip_asm_opt(false);
    sway_core::verif::set_check_regalloc(false);
    sway_ir::pass_manager::verif::set_controller(None);
    (
        sway_core::verif::take_regalloc_reports(),
        sway_core::verif::take_regalloc_stats(),
    )
}

/// Mode A: the plain forc path, fresh `Engines`, exactly `forc build [--release]`.
pub fn mode_a_build(dir: &Path, release: bool, tests: bool) -> Result<(Arc<BuiltPackage>, BuildPlan)> {
    let opts = pkg::BuildOpts {
        pkg: pkg::PkgOpts {
            path: Some(dir.to_string_lossy().to_string()),
            offline: true,
            terse: true,
            ..Default::default()
        },
        build_profile: BuildProfile::DEBUG.into(),
        release,
        tests,
        no_output: true,
        ..Default::default()
    };
    let plan = BuildPlan::from_pkg_opts(&opts.pkg)?;
    match pkg::build_with_options(&opts, None)? {
        pkg::Built::Package(p) => Ok((p, plan)),
        pkg::Built::Workspace(_) => bail!("workspace not supported"),
    }
}

// ---------------------------------------------------------------------------------------------
// Running tests

#[derive(Clone, Debug, PartialEq, Eq, serde::Serialize, serde::Deserialize)]
pub enum Outcome {
    /// test returned; logs = (rb, data-or-ra) per Log/LogData receipt, in order
    Ok { logs: Vec<LogRec> },
    Revert { code: u64, logs: Vec<LogRec> },
}

#[derive(Clone, Debug, PartialEq, Eq, serde::Serialize, serde::Deserialize)]
pub struct LogRec {
    /// log id (rb of LogData, rb of Log)
    pub id: u64,
    /// LogData payload; for `Log` receipts the 8 big-endian bytes of ra
    pub data: Vec<u8>,
}

pub struct TestRun {
    pub name: String,
    pub outcome: Outcome,
    pub passed: bool,
    pub gas: u64,
}

pub fn logs_of(receipts: &[fuel_tx::Receipt]) -> Vec<LogRec> {
    receipts
        .iter()
        .filter_map(|r| match r {
            fuel_tx::Receipt::LogData { rb, data, .. } => Some(LogRec {
                id: *rb,
                data: data.as_ref().map(|d| d.to_vec()).unwrap_or_default(),
            }),
            fuel_tx::Receipt::Log { ra, rb, .. } => Some(LogRec {
                id: *rb,
                data: ra.to_be_bytes().to_vec(),
            }),
            _ => None,
        })
        .collect()
}

/// Run every `#[test]` entry of a built package with forc-test's own executor.
pub fn run_tests(
    built: BuiltPackage,
    plan: &BuildPlan,
    runners: usize,
    filter: Option<forc_test::TestFilter>,
) -> Result<Vec<TestRun>> {
    let built_tests = forc_test::BuiltTests::from_built(pkg::Built::Package(Arc::new(built)), plan)?;
    let tested = built_tests.run(
        forc_test::TestRunnerCount::Manual(runners),
        filter,
        fuel_tx::GasCostsValues::default(),
        forc_test::TestGasLimit::Unlimited,
    )?;
    let tp = match tested {
        forc_test::Tested::Package(p) => p,
        forc_test::Tested::Workspace(_) => bail!("workspace"),
    };
    Ok(tp
        .tests
        .iter()
        .map(|t| {
            let logs = logs_of(&t.logs);
            let outcome = match t.state {
                fuel_vm::state::ProgramState::Revert(code) => Outcome::Revert { code, logs },
                _ => Outcome::Ok { logs },
            };
            TestRun {
                name: t.name.clone(),
                outcome,
                passed: t.passed(),
                gas: t.gas_used,
            }
        })
        .collect())
}

pub fn std_path() -> PathBuf {
    vhcore::repo_root().join("sway-lib-std")
}

/// Write a single-file package.
pub fn write_package(dir: &Path, name: &str, kind_src: &str, with_std: bool) -> Result<()> {
    std::fs::create_dir_all(dir.join("src"))?;
    let mut toml = format!(
        "[project]\nauthors = [\"verif\"]\nentry = \"main.sw\"\nlicense = \"Apache-2.0\"\nname = \"{name}\"\n"
    );
    if !with_std {
        toml.push_str("implicit-std = false\n");
    }
    toml.push_str("\n[dependencies]\n");
    if with_std {
        toml.push_str(&format!("std = {{ path = \"{}\" }}\n", std_path().display()));
    }
    std::fs::write(dir.join("Forc.toml"), toml)?;
    std::fs::write(dir.join("src/main.sw"), kind_src)?;
    Ok(())
}

// ---------------------------------------------------------------------------------------------
// Running a script's `main` the way the e2e harness does (`Interpreter::transact`)

#[derive(Clone, Debug, PartialEq, Eq, serde::Serialize, serde::Deserialize)]
pub enum ScriptOutcome {
    Return(u64),
    ReturnData(Vec<u8>),
    Revert(u64),
}

#[derive(Clone, Debug, PartialEq, Eq, serde::Serialize, serde::Deserialize)]
pub struct ScriptRun {
    pub outcome: ScriptOutcome,
    pub logs: Vec<LogRec>,
}

pub fn run_script(bytecode: &[u8], script_data: Vec<u8>) -> Result<ScriptRun> {
    use fuel_tx::consensus_parameters::ConsensusParametersV1;
    use fuel_tx::{ConsensusParameters, ScriptParameters, TransactionBuilder, TxParameters};
    use fuel_vm::checked_transaction::builder::TransactionBuilderExt;
    use fuel_vm::interpreter::{Interpreter, MemoryInstance};
    use fuel_vm::prelude::SecretKey;
    use fuel_vm::state::ProgramState;
    use fuel_vm::storage::MemoryStorage;
    use fuel_tx::{Chargeable, Finalizable};
    use rand::{Rng, SeedableRng};
    let storage = MemoryStorage::default();
    let rng = &mut rand::rngs::StdRng::seed_from_u64(2322u64);
    let block_height = (u32::MAX >> 1).into();
    let max_size = 64 * 1024 * 1024;
    let script_params = ScriptParameters::DEFAULT
        .with_max_script_length(max_size)
        .with_max_script_data_length(max_size);
    let tx_params = TxParameters::DEFAULT.with_max_size(max_size);
    let params = ConsensusParameters::V1(ConsensusParametersV1 {
        script_params,
        tx_params,
        ..Default::default()
    });
    let mut tb = TransactionBuilder::script(bytecode.to_vec(), script_data);
    tb.with_params(params)
        .add_unsigned_coin_input(SecretKey::random(rng), rng.r#gen(), 1, Default::default(), rng.r#gen())
        .maturity(1.into());
    let consensus_params = tb.get_params().clone();
    let params = ConsensusParameters::default();
    let tmp_tx = tb.clone().finalize();
    let max_gas = tmp_tx.max_gas(consensus_params.gas_costs(), consensus_params.fee_params()) + 1;
    tb.script_gas_limit(consensus_params.tx_params().max_gas_per_tx() - max_gas);
    let tx = tb
        .finalize_checked(block_height)
        .into_ready(0, params.gas_costs(), params.fee_params(), None)
        .map_err(|e| anyhow!("{e:?}"))?;
    let mut i: Interpreter<_, _, _, forc_test::ecal::EcalSyscallHandler> =
        Interpreter::with_storage(MemoryInstance::new(), storage, Default::default());
    let transition = i.transact(tx).map_err(|e| anyhow!("{e:?}"))?;
    let receipts = transition.receipts().to_vec();
    let outcome = match *transition.state() {
        ProgramState::Return(v) => ScriptOutcome::Return(v),
        ProgramState::ReturnData(digest) => {
            let data = receipts
                .iter()
                .find(|r| r.digest() == Some(&digest))
                .and_then(|r| r.data().map(|d| d.to_vec()))
                .unwrap_or_default();
            ScriptOutcome::ReturnData(data)
        }
        ProgramState::Revert(v) => ScriptOutcome::Revert(v),
        other => bail!("suspended state {other:?}"),
    };
    Ok(ScriptRun { outcome, logs: logs_of(&receipts) })
}

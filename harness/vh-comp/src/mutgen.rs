//! C17 helpers: a small Sway token scanner, the first-order *semantic* mutation operators
//! (every operator is applied at every applicable position, one edit per mutant), the base
//! programs, the scale ladder, and a sequential worker driver for adaptive ladder climbing.
//!
//! Nothing here samples: `mutate` returns the complete list of single-edit deviations of a source
//! for the chosen operator options, in a deterministic order.

use crate::worker::{Request, Response};
use std::collections::{BTreeMap, BTreeSet};
use std::io::{BufRead, BufReader, Write};
use std::path::{Path, PathBuf};
use std::process::{Child, ChildStdin, Command, Stdio};
use std::sync::mpsc;
use std::time::Duration;

// ---------------------------------------------------------------------------------------------
// Scanner

#[derive(Clone, Copy, PartialEq, Eq, Debug)]
pub enum K {
    Ident,
    Kw,
    TyKw,
    Int,
    Str,
    Punct,
    Open,
    Close,
}

#[derive(Clone, Debug)]
pub struct Tok {
    pub k: K,
    pub s: usize,
    pub e: usize,
}

pub const TYPE_KWS: [&str; 8] = ["u8", "u16", "u32", "u64", "u256", "bool", "b256", "str"];

const KEYWORDS: &[&str] = &[
    "script", "contract", "predicate", "library", "mod", "pub", "use", "as", "struct", "enum", "self", "Self",
    "fn", "trait", "impl", "for", "abi", "const", "storage", "asm", "return", "if", "else", "match", "mut", "let",
    "while", "where", "ref", "true", "false", "break", "continue", "configurable", "type", "in", "_",
];

const PUNCT3: &[&str] = &["<<=", ">>="];
const PUNCT2: &[&str] = &[
    "::", "->", "=>", "==", "!=", "<=", ">=", "&&", "||", "<<", "+=", "-=", "*=", "/=", "%=", "&=", "|=", "^=", "..",
];

pub const NONE: usize = usize::MAX;

pub struct Scan {
    pub src: String,
    pub toks: Vec<Tok>,
    /// matching bracket token (also for generic angle brackets), `NONE` otherwise
    pub mate: Vec<usize>,
}

impl Scan {
    pub fn new(src: &str) -> Result<Scan, String> {
        let b = src.as_bytes();
        let mut toks = vec![];
        let mut i = 0;
        while i < b.len() {
            let c = b[i];
            if c.is_ascii_whitespace() {
                i += 1;
                continue;
            }
            if c == b'/' && i + 1 < b.len() && b[i + 1] == b'/' {
                while i < b.len() && b[i] != b'\n' {
                    i += 1;
                }
                continue;
            }
            if c == b'/' && i + 1 < b.len() && b[i + 1] == b'*' {
                i += 2;
                while i + 1 < b.len() && !(b[i] == b'*' && b[i + 1] == b'/') {
                    i += 1;
                }
                i = (i + 2).min(b.len());
                continue;
            }
            if c == b'"' {
                let s = i;
                i += 1;
                while i < b.len() && b[i] != b'"' {
                    if b[i] == b'\\' {
                        i += 1;
                    }
                    i += 1;
                }
                i = (i + 1).min(b.len());
                toks.push(Tok { k: K::Str, s, e: i });
                continue;
            }
            if c.is_ascii_digit() {
                let s = i;
                while i < b.len() && (b[i].is_ascii_alphanumeric() || b[i] == b'_') {
                    i += 1;
                }
                toks.push(Tok { k: K::Int, s, e: i });
                continue;
            }
            if c.is_ascii_alphabetic() || c == b'_' {
                let s = i;
                while i < b.len() && (b[i].is_ascii_alphanumeric() || b[i] == b'_') {
                    i += 1;
                }
                let t = &src[s..i];
                let k = if TYPE_KWS.contains(&t) {
                    K::TyKw
                } else if KEYWORDS.contains(&t) {
                    K::Kw
                } else {
                    K::Ident
                };
                toks.push(Tok { k, s, e: i });
                continue;
            }
            if !c.is_ascii() {
                // non-ASCII outside strings/comments: not expected in base programs
                return Err(format!("non-ASCII byte at {i}"));
            }
            if matches!(c, b'(' | b'[' | b'{') {
                toks.push(Tok { k: K::Open, s: i, e: i + 1 });
                i += 1;
                continue;
            }
            if matches!(c, b')' | b']' | b'}') {
                toks.push(Tok { k: K::Close, s: i, e: i + 1 });
                i += 1;
                continue;
            }
            let rest = &src[i..];
            let mut len = 1;
            if let Some(p) = PUNCT3.iter().find(|p| rest.starts_with(**p)) {
                len = p.len();
            } else if let Some(p) = PUNCT2.iter().find(|p| rest.starts_with(**p)) {
                len = p.len();
            }
            toks.push(Tok { k: K::Punct, s: i, e: i + len });
            i += len;
        }
        let mut sc = Scan { src: src.to_string(), mate: vec![NONE; toks.len()], toks };
        // brackets
        let mut stack: Vec<usize> = vec![];
        for i in 0..sc.toks.len() {
            match sc.toks[i].k {
                K::Open => stack.push(i),
                K::Close => {
                    let Some(o) = stack.pop() else { return Err(format!("unbalanced close at token {i}")) };
                    let want = match sc.text(o) {
                        "(" => ")",
                        "[" => "]",
                        _ => "}",
                    };
                    if sc.text(i) != want {
                        return Err(format!("mismatched bracket at token {i}"));
                    }
                    sc.mate[o] = i;
                    sc.mate[i] = o;
                }
                _ => {}
            }
        }
        if !stack.is_empty() {
            return Err("unbalanced open bracket".into());
        }
        sc.detect_generics();
        Ok(sc)
    }

    pub fn text(&self, i: usize) -> &str {
        &self.src[self.toks[i].s..self.toks[i].e]
    }

    pub fn is(&self, i: usize, t: &str) -> bool {
        i < self.toks.len() && self.text(i) == t
    }

    /// `<` … `>` that delimit generic parameter / argument lists become Open/Close tokens.
    fn detect_generics(&mut self) {
        let n = self.toks.len();
        for i in 0..n {
            if !(self.toks[i].k == K::Punct && self.text(i) == "<") || i == 0 {
                continue;
            }
            let p = i - 1;
            let prev_ok = match self.toks[p].k {
                K::Ident => true,
                K::Kw => matches!(self.text(p), "impl" | "Self"),
                K::Punct => self.text(p) == "::",
                _ => false,
            };
            if !prev_ok {
                continue;
            }
            let mut depth = 1usize;
            let mut inner: Vec<usize> = vec![]; // open ( [ seen inside
            let mut j = i + 1;
            let mut found = NONE;
            while j < n {
                let t = self.text(j);
                let ok = match self.toks[j].k {
                    K::Ident | K::TyKw | K::Int => true,
                    K::Kw => matches!(t, "Self" | "mut" | "const" | "_"),
                    K::Str => false,
                    K::Open => {
                        if t == "{" {
                            false
                        } else {
                            inner.push(j);
                            true
                        }
                    }
                    K::Close => {
                        if t == "}" {
                            false
                        } else {
                            inner.pop().is_some()
                        }
                    }
                    K::Punct => match t {
                        "<" => {
                            depth += 1;
                            true
                        }
                        ">" => {
                            depth -= 1;
                            if depth == 0 && inner.is_empty() {
                                found = j;
                            }
                            true
                        }
                        "," | "::" | ":" | "+" | "&" | "!" => true,
                        ";" => inner.iter().any(|o| self.text(*o) == "["),
                        _ => false,
                    },
                };
                if !ok || found != NONE {
                    break;
                }
                j += 1;
            }
            if found != NONE {
                self.mate[i] = found;
                self.mate[found] = i;
            }
        }
        for i in 0..n {
            if self.mate[i] != NONE && self.toks[i].k == K::Punct {
                self.toks[i].k = if self.text(i) == "<" { K::Open } else { K::Close };
            }
        }
    }

    /// Elements of the token range `[lo, hi)` (children of one group, or the whole file).
    pub fn elements(&self, lo: usize, hi: usize, brace: bool) -> Vec<Elem> {
        const CONT: &[&str] = &[
            "else", ".", ",", ";", ")", "]", "as", "+", "-", "*", "/", "%", "==", "!=", "<", ">", "<=", ">=", "&&", "||",
            "&", "|", "^", "<<", "=",
        ];
        let mut out = vec![];
        let mut start = lo;
        let mut i = lo;
        while i < hi {
            match self.toks[i].k {
                K::Open => {
                    let open_text = self.text(i).to_string();
                    i = self.mate[i];
                    if brace && open_text == "{" {
                        let cont = i + 1 < hi && CONT.contains(&self.text(i + 1));
                        if !cont {
                            out.push(Elem { first: start, last: i, sep: NONE });
                            start = i + 1;
                        }
                    }
                }
                K::Punct if matches!(self.text(i), "," | ";") => {
                    if i > start {
                        out.push(Elem { first: start, last: i - 1, sep: i });
                    }
                    start = i + 1;
                }
                _ => {}
            }
            i += 1;
        }
        if start < hi {
            out.push(Elem { first: start, last: hi - 1, sep: NONE });
        }
        out
    }

    /// All groups: `(open token or NONE for the file, lo, hi, is_brace)`.
    pub fn groups(&self) -> Vec<(usize, usize, usize, bool)> {
        let mut g = vec![(NONE, 0, self.toks.len(), true)];
        for i in 0..self.toks.len() {
            if self.toks[i].k == K::Open {
                g.push((i, i + 1, self.mate[i], self.text(i) == "{"));
            }
        }
        g
    }
}

#[derive(Clone, Copy, Debug)]
pub struct Elem {
    pub first: usize,
    pub last: usize,
    pub sep: usize,
}

// ---------------------------------------------------------------------------------------------
// Mutation operators

#[derive(Clone, Debug)]
pub struct Mutant {
    pub family: &'static str,
    pub desc: String,
    pub src: String,
}

#[derive(Clone, Debug)]
pub struct Opts {
    /// compound replacement types in addition to the scalar / declared / parameter / undefined names
    pub ext_types: bool,
    /// every binary operator as replacement (otherwise a 6-operator sub-alphabet)
    pub all_ops: bool,
    /// every identifier of the pool as replacement (otherwise: the globally declared names only
    /// when the pool exceeds this size)
    pub ident_pool_cap: usize,
    /// how many of the keyword replacements (`self`, `storage`, `fn`) are used for identifiers
    pub ident_kws: usize,
}

pub const FAMILIES: [&str; 11] = [
    "type", "ident", "delete", "dup", "swap", "modifier", "literal", "operator", "wrap", "kind", "seed",
];

const BIN_OPS: [&str; 18] = [
    "+", "-", "*", "/", "%", "&", "|", "^", "<<", ">>", "==", "!=", "<", ">", "<=", ">=", "&&", "||",
];
const BIN_OPS_QUICK: [&str; 6] = ["+", "/", "<<", "==", "<", "&&"];
const ASSIGN_OPS: [&str; 9] = ["=", "+=", "-=", "*=", "/=", "%=", "<<=", "&=", "^="];
const EXT_TYPES: [&str; 9] = [
    "()", "!", "raw_slice", "[u64; 2]", "(u64, bool)", "Vec<u64>", "Option<u64>", "str[4]", "&u64",
];
const IDENT_KWS: [&str; 3] = ["self", "storage", "fn"];
pub const UNDEF_TYPE: &str = "Undef9";
pub const UNDEF_IDENT: &str = "undef_9";

fn splice(src: &str, edits: &[(usize, usize, String)]) -> String {
    let mut e: Vec<&(usize, usize, String)> = edits.iter().collect();
    e.sort_by_key(|x| (x.0, x.1));
    let mut out = String::with_capacity(src.len() + 32);
    let mut pos = 0;
    for (s, t, r) in e {
        out.push_str(&src[pos..*s]);
        out.push_str(r);
        pos = *t;
    }
    out.push_str(&src[pos..]);
    out
}

pub struct Names {
    pub types: BTreeSet<String>,
    pub type_params: BTreeSet<String>,
    /// identifiers bound by `let` / as function parameters, with the top-level element they occur in
    pub locals: BTreeMap<usize, BTreeSet<String>>,
    pub globals: BTreeSet<String>,
    /// top-level element index of every token
    pub item_of: Vec<usize>,
}

fn collect_names(sc: &Scan) -> Names {
    let n = sc.toks.len();
    let top = sc.elements(0, n, true);
    let mut item_of = vec![0usize; n];
    for (k, e) in top.iter().enumerate() {
        let hi = if e.sep != NONE { e.sep } else { e.last };
        for t in e.first..=hi {
            item_of[t] = k;
        }
    }
    let mut types = BTreeSet::new();
    let mut type_params = BTreeSet::new();
    for i in 0..n {
        if sc.toks[i].k == K::Kw && matches!(sc.text(i), "struct" | "enum" | "trait" | "abi" | "type") {
            if i + 1 < n && sc.toks[i + 1].k == K::Ident {
                types.insert(sc.text(i + 1).to_string());
            }
        }
        // generic parameter lists: `<` directly after `impl`, or after the name that follows a declaring keyword
        if sc.toks[i].k == K::Open && sc.text(i) == "<" && i >= 1 {
            let decl = (sc.toks[i - 1].k == K::Kw && sc.text(i - 1) == "impl")
                || (i >= 2
                    && sc.toks[i - 1].k == K::Ident
                    && sc.toks[i - 2].k == K::Kw
                    && matches!(sc.text(i - 2), "fn" | "struct" | "enum" | "trait" | "abi" | "type"));
            if decl {
                for e in sc.elements(i + 1, sc.mate[i], false) {
                    if sc.toks[e.first].k == K::Ident {
                        type_params.insert(sc.text(e.first).to_string());
                    }
                }
            }
        }
    }
    let is_type_name = |s: &str| types.contains(s) || type_params.contains(s);
    let mut locals: BTreeMap<usize, BTreeSet<String>> = BTreeMap::new();
    for i in 0..n {
        if sc.toks[i].k == K::Kw && sc.text(i) == "let" {
            let mut j = i + 1;
            if sc.is(j, "mut") {
                j += 1;
            }
            if j < n && sc.toks[j].k == K::Ident {
                locals.entry(item_of[i]).or_default().insert(sc.text(j).to_string());
            }
        }
        // parameters: `fn name (` or `fn name <...> (`
        if sc.toks[i].k == K::Kw && sc.text(i) == "fn" && i + 2 < n {
            let mut p = i + 2;
            if sc.toks[p].k == K::Open && sc.text(p) == "<" {
                p = sc.mate[p] + 1;
            }
            if p < n && sc.toks[p].k == K::Open && sc.text(p) == "(" {
                for e in sc.elements(p + 1, sc.mate[p], false) {
                    let mut j = e.first;
                    while j <= e.last && sc.toks[j].k == K::Kw && matches!(sc.text(j), "ref" | "mut") {
                        j += 1;
                    }
                    if j <= e.last && sc.toks[j].k == K::Ident && sc.is(j + 1, ":") {
                        locals.entry(item_of[i]).or_default().insert(sc.text(j).to_string());
                    }
                }
            }
        }
    }
    let all_locals: BTreeSet<String> = locals.values().flatten().cloned().collect();
    let mut globals = BTreeSet::new();
    for i in 0..n {
        if sc.toks[i].k == K::Ident {
            let t = sc.text(i);
            if !is_type_name(t) && !all_locals.contains(t) {
                globals.insert(t.to_string());
            }
        }
    }
    Names { types, type_params, locals, globals, item_of }
}

fn int_parts(t: &str) -> (String, Option<&'static str>) {
    for suf in ["u256", "u64", "u32", "u16", "u8"] {
        if let Some(d) = t.strip_suffix(suf) {
            if !d.is_empty() && !(d.starts_with("0x") && d.len() == 2) {
                let s: &'static str = match suf {
                    "u256" => "u256",
                    "u64" => "u64",
                    "u32" => "u32",
                    "u16" => "u16",
                    _ => "u8",
                };
                return (d.trim_end_matches('_').to_string(), Some(s));
            }
        }
    }
    (t.to_string(), None)
}

fn pow2_dec(bits: u32) -> String {
    (num_bigint::BigUint::from(1u8) << bits as usize).to_string()
}

/// All single-edit mutants of `src` and, per family, the number of (position, alternative) pairs
/// the operator definitions predict (closed form over the scan), for the generator guard.
pub fn mutate(src: &str, o: &Opts) -> Result<(Vec<Mutant>, BTreeMap<&'static str, usize>), String> {
    let sc = Scan::new(src)?;
    let names = collect_names(&sc);
    let n = sc.toks.len();
    let mut out: Vec<Mutant> = vec![];
    let mut expected: BTreeMap<&'static str, usize> = BTreeMap::new();
    let push = |out: &mut Vec<Mutant>, fam: &'static str, desc: String, edits: Vec<(usize, usize, String)>| {
        out.push(Mutant { family: fam, desc, src: splice(src, &edits) });
    };
    let line_of = |tok: usize| src[..sc.toks[tok].s].matches('\n').count() + 1;

    // -- type names ---------------------------------------------------------------------------
    let is_type_tok = |i: usize| -> bool {
        match sc.toks[i].k {
            K::TyKw => true,
            K::Ident => names.types.contains(sc.text(i)) || names.type_params.contains(sc.text(i)),
            K::Kw => sc.text(i) == "Self",
            _ => false,
        }
    };
    let mut type_pool: Vec<String> = TYPE_KWS.iter().map(|s| s.to_string()).collect();
    type_pool.extend(names.types.iter().cloned());
    type_pool.extend(names.type_params.iter().cloned());
    type_pool.push(UNDEF_TYPE.to_string());
    if o.ext_types {
        type_pool.extend(EXT_TYPES.iter().map(|s| s.to_string()));
    }
    {
        let positions: Vec<usize> = (0..n).filter(|i| is_type_tok(*i)).collect();
        let mut exp = 0;
        for &i in &positions {
            exp += type_pool.iter().filter(|t| t.as_str() != sc.text(i)).count();
            for t in &type_pool {
                if t != sc.text(i) {
                    push(
                        &mut out,
                        "type",
                        format!("line {}: type `{}` -> `{}`", line_of(i), sc.text(i), t),
                        vec![(sc.toks[i].s, sc.toks[i].e, t.clone())],
                    );
                }
            }
        }
        expected.insert("type", exp);
    }

    // -- identifiers --------------------------------------------------------------------------
    {
        let mut exp = 0;
        for i in 0..n {
            if sc.toks[i].k != K::Ident || is_type_tok(i) {
                continue;
            }
            // attribute names (`#[inline(never)]`, `#[storage(read)]`, `#[test]`) are not identifier uses
            let in_attr = {
                let mut j = i;
                let mut found = false;
                while j > 0 {
                    j -= 1;
                    if sc.toks[j].k == K::Open && sc.mate[j] > i {
                        if sc.text(j) == "[" && j > 0 && sc.is(j - 1, "#") {
                            found = true;
                        }
                        if sc.text(j) == "{" {
                            break;
                        }
                    }
                }
                found
            };
            if in_attr {
                continue;
            }
            let me = sc.text(i);
            let mut pool: Vec<String> = vec![];
            if let Some(l) = names.locals.get(&names.item_of[i]) {
                pool.extend(l.iter().cloned());
            }
            let globals: Vec<String> = names.globals.iter().cloned().collect();
            if pool.len() + globals.len() <= o.ident_pool_cap {
                pool.extend(globals);
            } else {
                // bounded alphabet: the locals of the enclosing item plus the names declared by
                // `fn`/`const` in this file (declared, deterministic sub-alphabet)
                for j in 0..n.saturating_sub(1) {
                    if sc.toks[j].k == K::Kw && matches!(sc.text(j), "fn" | "const") && sc.toks[j + 1].k == K::Ident {
                        pool.push(sc.text(j + 1).to_string());
                    }
                }
            }
            pool.sort();
            pool.dedup();
            pool.retain(|p| p != me);
            pool.push(UNDEF_IDENT.to_string());
            pool.extend(IDENT_KWS.iter().take(o.ident_kws).map(|s| s.to_string()));
            exp += pool.len();
            for r in pool {
                push(
                    &mut out,
                    "ident",
                    format!("line {}: identifier `{}` -> `{}`", line_of(i), me, r),
                    vec![(sc.toks[i].s, sc.toks[i].e, r)],
                );
            }
        }
        expected.insert("ident", exp);
    }

    // -- structure: delete / duplicate / swap ----------------------------------------------------
    {
        let (mut e_del, mut e_dup, mut e_swap) = (0, 0, 0);
        for (open, lo, hi, brace) in sc.groups() {
            let els = sc.elements(lo, hi, brace);
            let comma_style = els.iter().any(|e| e.sep != NONE && sc.text(e.sep) == ",") || !brace;
            let gname = if open == NONE { "file".to_string() } else { format!("{} at line {}", sc.text(open), line_of(open)) };
            let skip0 = open == NONE; // the program-kind line
            for (k, e) in els.iter().enumerate() {
                if skip0 && k == 0 {
                    continue;
                }
                let s = sc.toks[e.first].s;
                let core_e = sc.toks[e.last].e;
                let full_e = if e.sep != NONE { sc.toks[e.sep].e } else { core_e };
                e_del += 1;
                push(&mut out, "delete", format!("delete element {k} of {gname}"), vec![(s, full_e, String::new())]);
                e_dup += 1;
                let dup_text = if e.sep != NONE {
                    format!(" {}", &src[s..full_e])
                } else if comma_style {
                    format!(", {}", &src[s..core_e])
                } else {
                    format!("\n{}", &src[s..core_e])
                };
                push(&mut out, "dup", format!("duplicate element {k} of {gname}"), vec![(full_e, full_e, dup_text)]);
                if k + 1 < els.len() && !(skip0 && k == 0) {
                    let f = els[k + 1];
                    e_swap += 1;
                    let (fs, fe) = (sc.toks[f.first].s, sc.toks[f.last].e);
                    push(
                        &mut out,
                        "swap",
                        format!("swap elements {k},{} of {gname}", k + 1),
                        vec![(s, core_e, src[fs..fe].to_string()), (fs, fe, src[s..core_e].to_string())],
                    );
                }
            }
        }
        // delete a function's return type
        for i in 0..n {
            if sc.is(i, "->") {
                // the type extends to the next `{`, `;` or `where` at this nesting level
                let mut j = i + 1;
                while j < n {
                    match sc.toks[j].k {
                        K::Open if sc.text(j) == "{" => break,
                        K::Open => j = sc.mate[j],
                        K::Punct if sc.text(j) == ";" => break,
                        K::Kw if sc.text(j) == "where" => break,
                        _ => {}
                    }
                    j += 1;
                }
                if j > i + 1 && j < n {
                    e_del += 1;
                    push(
                        &mut out,
                        "delete",
                        format!("line {}: delete return type", line_of(i)),
                        vec![(sc.toks[i].s, sc.toks[j - 1].e, String::new())],
                    );
                }
            }
        }
        expected.insert("delete", e_del);
        expected.insert("dup", e_dup);
        expected.insert("swap", e_swap);
    }

    // -- modifiers: mut / ref / pub / & / * -------------------------------------------------------
    {
        let mut exp = 0;
        let operand_end = |j: usize| -> bool {
            matches!(sc.toks[j].k, K::Ident | K::Int | K::Str | K::Close | K::TyKw)
                || (sc.toks[j].k == K::Kw && matches!(sc.text(j), "true" | "false" | "self" | "Self"))
        };
        for i in 0..n {
            let t = sc.text(i);
            // removals
            if sc.toks[i].k == K::Kw && matches!(t, "mut" | "ref" | "pub") {
                exp += 1;
                push(&mut out, "modifier", format!("line {}: remove `{t}`", line_of(i)), vec![(sc.toks[i].s, sc.toks[i].e, String::new())]);
            }
            if sc.toks[i].k == K::Punct && t == "&" && (i == 0 || !operand_end(i - 1)) {
                exp += 1;
                push(&mut out, "modifier", format!("line {}: remove `&`", line_of(i)), vec![(sc.toks[i].s, sc.toks[i].e, String::new())]);
            }
            // additions
            if sc.toks[i].k == K::Kw && t == "let" && !sc.is(i + 1, "mut") {
                exp += 1;
                push(&mut out, "modifier", format!("line {}: add `mut` to let", line_of(i)), vec![(sc.toks[i].e, sc.toks[i].e, " mut".into())]);
            }
            if sc.toks[i].k == K::Kw && t == "fn" && i + 2 < n {
                let mut p = i + 2;
                if sc.toks[p].k == K::Open && sc.text(p) == "<" {
                    p = sc.mate[p] + 1;
                }
                if p < n && sc.toks[p].k == K::Open && sc.text(p) == "(" {
                    for e in sc.elements(p + 1, sc.mate[p], false) {
                        if sc.toks[e.first].k == K::Ident && sc.is(e.first + 1, ":") {
                            for add in ["mut ", "ref mut "] {
                                exp += 1;
                                push(
                                    &mut out,
                                    "modifier",
                                    format!("line {}: add `{}` to parameter `{}`", line_of(e.first), add.trim(), sc.text(e.first)),
                                    vec![(sc.toks[e.first].s, sc.toks[e.first].s, add.into())],
                                );
                            }
                        }
                    }
                }
            }
            // `pub` before items / fields that lack it
            if sc.toks[i].k == K::Kw
                && matches!(t, "fn" | "struct" | "enum" | "const" | "trait" | "abi" | "type" | "impl" | "use")
                && (i == 0 || !sc.is(i - 1, "pub"))
            {
                exp += 1;
                push(&mut out, "modifier", format!("line {}: add `pub` before `{t}`", line_of(i)), vec![(sc.toks[i].s, sc.toks[i].s, "pub ".into())]);
            }
            if sc.toks[i].k == K::Kw && t == "struct" {
                let mut p = i + 2;
                if p < n && sc.toks[p].k == K::Open && sc.text(p) == "<" {
                    p = sc.mate[p] + 1;
                }
                if p < n && sc.toks[p].k == K::Open && sc.text(p) == "{" {
                    for e in sc.elements(p + 1, sc.mate[p], true) {
                        if sc.toks[e.first].k == K::Ident {
                            exp += 1;
                            push(
                                &mut out,
                                "modifier",
                                format!("line {}: add `pub` to field `{}`", line_of(e.first), sc.text(e.first)),
                                vec![(sc.toks[e.first].s, sc.toks[e.first].s, "pub ".into())],
                            );
                        }
                    }
                }
            }
            // `&` / `&mut` before a type
            if is_type_tok(i) && i > 0 {
                let p = sc.text(i - 1);
                let starts_type = matches!(p, ":" | "->" | "<" | "[" | "(") || (p == "," && {
                    // comma inside a generic list or a tuple type: keep only generic lists
                    let mut j = i - 1;
                    let mut in_angle = false;
                    while j > 0 {
                        j -= 1;
                        if sc.toks[j].k == K::Open && sc.mate[j] > i {
                            in_angle = sc.text(j) == "<";
                            break;
                        }
                    }
                    in_angle
                });
                if starts_type {
                    for add in ["&", "&mut "] {
                        exp += 1;
                        push(
                            &mut out,
                            "modifier",
                            format!("line {}: add `{}` before type `{}`", line_of(i), add.trim(), sc.text(i)),
                            vec![(sc.toks[i].s, sc.toks[i].s, add.into())],
                        );
                    }
                }
            }
            // `&` / `&mut` / `*` before an identifier use in expression position
            if sc.toks[i].k == K::Ident && !is_type_tok(i) && i > 0 {
                let p = sc.text(i - 1);
                let expr_pos = matches!(
                    p,
                    "(" | "," | "=" | "return" | "{" | ";" | "=>" | "[" | "+" | "-" | "*" | "/" | "%" | "==" | "!=" | "<=" | ">=" | "&&" | "||" | "<<" | "+="
                ) || (matches!(p, "<" | ">") && sc.toks[i - 1].k == K::Punct);
                let decl_like = sc.is(i + 1, ":") && !sc.is(i + 1, "::");
                if expr_pos && !decl_like {
                    for add in ["&", "&mut ", "*"] {
                        exp += 1;
                        push(
                            &mut out,
                            "modifier",
                            format!("line {}: add `{}` before `{}`", line_of(i), add.trim(), sc.text(i)),
                            vec![(sc.toks[i].s, sc.toks[i].s, add.into())],
                        );
                    }
                }
            }
        }
        expected.insert("modifier", exp);
    }

    // -- literals -------------------------------------------------------------------------------
    {
        let mut exp = 0;
        for i in 0..n {
            match sc.toks[i].k {
                K::Int => {
                    if i > 0 && sc.is(i - 1, ".") {
                        continue; // tuple index
                    }
                    let t = sc.text(i);
                    let (digits, suf) = int_parts(t);
                    let is_hex256 = digits.starts_with("0x") && digits.len() == 66;
                    let mut alts: Vec<String> = vec![];
                    for s in ["", "u8", "u16", "u32", "u64", "u256"] {
                        if s != suf.unwrap_or("") {
                            alts.push(format!("{digits}{s}"));
                        }
                    }
                    if is_hex256 {
                        alts.push(format!("{}{}", &digits[..65], suf.unwrap_or("")));
                        alts.push(format!("{}0{}", digits, suf.unwrap_or("")));
                    } else {
                        let bits = match suf {
                            Some("u8") => 8,
                            Some("u16") => 16,
                            Some("u32") => 32,
                            Some("u256") => 256,
                            _ => 64,
                        };
                        alts.push(format!("{}{}", pow2_dec(bits), suf.unwrap_or("")));
                        alts.push(pow2_dec(256));
                        if digits.trim_start_matches("0x").trim_start_matches("0b").chars().any(|c| c != '0' && c != '_') {
                            alts.push(format!("0{}", suf.unwrap_or("")));
                        }
                    }
                    exp += alts.len();
                    for a in alts {
                        push(&mut out, "literal", format!("line {}: literal `{t}` -> `{a}`", line_of(i)), vec![(sc.toks[i].s, sc.toks[i].e, a)]);
                    }
                }
                K::Str => {
                    let t = sc.text(i);
                    let inner = &t[1..t.len().saturating_sub(1).max(1)];
                    let alts = [String::from("\"\""), format!("\"{inner}x\""), String::from("\"\u{e9}\"")];
                    for a in alts {
                        if a != t {
                            exp += 1;
                            push(&mut out, "literal", format!("line {}: string {t} -> {a}", line_of(i)), vec![(sc.toks[i].s, sc.toks[i].e, a)]);
                        }
                    }
                }
                _ => {}
            }
        }
        expected.insert("literal", exp);
    }

    // -- operators ------------------------------------------------------------------------------
    {
        let mut exp = 0;
        let ops: Vec<&str> = if o.all_ops { BIN_OPS.to_vec() } else { BIN_OPS_QUICK.to_vec() };
        let operand_end = |j: usize| -> bool {
            matches!(sc.toks[j].k, K::Ident | K::Int | K::Str | K::TyKw)
                || (sc.toks[j].k == K::Close && sc.text(j) != ">")
                || (sc.toks[j].k == K::Kw && matches!(sc.text(j), "true" | "false" | "self"))
        };
        let mut i = 0;
        while i < n {
            if sc.toks[i].k == K::Punct && i > 0 && operand_end(i - 1) {
                let t = sc.text(i);
                // `>` `>` adjacent = shift right
                let (cur, end_tok) = if t == ">" && i + 1 < n && sc.toks[i + 1].k == K::Punct && sc.is(i + 1, ">") && sc.toks[i + 1].s == sc.toks[i].e {
                    (">>", i + 1)
                } else {
                    (t, i)
                };
                if BIN_OPS.contains(&cur) {
                    for r in &ops {
                        if *r != cur {
                            exp += 1;
                            push(
                                &mut out,
                                "operator",
                                format!("line {}: operator `{cur}` -> `{r}`", line_of(i)),
                                vec![(sc.toks[i].s, sc.toks[end_tok].e, r.to_string())],
                            );
                        }
                    }
                    i = end_tok + 1;
                    continue;
                }
                if ASSIGN_OPS.contains(&cur) {
                    // plain `=` only when it is an assignment statement (not `let`, not a field initialiser,
                    // not a const/configurable/storage initialiser): the statement's first token is the target
                    let is_assign = if cur == "=" {
                        let mut j = i;
                        let mut stmt_start = 0;
                        while j > 0 {
                            j -= 1;
                            if (sc.toks[j].k == K::Punct && matches!(sc.text(j), ";" | ",")) || (sc.toks[j].k == K::Open && sc.mate[j] > i) {
                                stmt_start = j + 1;
                                break;
                            }
                            if sc.toks[j].k == K::Close {
                                j = sc.mate[j];
                            }
                        }
                        sc.toks[stmt_start].k == K::Ident && !(0..i).rev().take(i - stmt_start).any(|x| sc.is(x, ":"))
                    } else {
                        true
                    };
                    if is_assign {
                        let alts: Vec<&str> = if o.all_ops { ASSIGN_OPS.to_vec() } else { vec!["=", "+=", "/=", "<<="] };
                        for r in alts {
                            if r != cur {
                                exp += 1;
                                push(
                                    &mut out,
                                    "operator",
                                    format!("line {}: assignment `{cur}` -> `{r}`", line_of(i)),
                                    vec![(sc.toks[i].s, sc.toks[i].e, r.to_string())],
                                );
                            }
                        }
                    }
                }
            } else if sc.toks[i].k == K::Punct && sc.text(i) == "!" {
                exp += 1;
                push(&mut out, "operator", format!("line {}: remove unary `!`", line_of(i)), vec![(sc.toks[i].s, sc.toks[i].e, String::new())]);
            }
            i += 1;
        }
        expected.insert("operator", exp);
    }

    // -- wrap an item -----------------------------------------------------------------------------
    {
        let mut exp = 0;
        let top = sc.elements(0, n, true);
        let first_struct = names.types.iter().next().cloned().unwrap_or_else(|| "u64".to_string());
        let targets = [first_struct, UNDEF_TYPE.to_string()];
        for (k, e) in top.iter().enumerate().skip(1) {
            if sc.is(e.first, "use") {
                continue;
            }
            let s = sc.toks[e.first].s;
            let t = if e.sep != NONE { sc.toks[e.sep].e } else { sc.toks[e.last].e };
            for x in &targets {
                for (pre, what) in [
                    (format!("impl {x} {{\n"), "impl X"),
                    (format!("abi {x} {{\n"), "abi X"),
                    (format!("trait {x} {{\n"), "trait X"),
                    (format!("impl {x} for u64 {{\n"), "impl X for u64"),
                ] {
                    exp += 1;
                    push(
                        &mut out,
                        "wrap",
                        format!("wrap item {k} (line {}) in `{what}` with X = {x}", line_of(e.first)),
                        vec![(s, s, pre), (t, t, "\n}".to_string())],
                    );
                }
            }
        }
        expected.insert("wrap", exp);
    }

    // -- program kind -------------------------------------------------------------------------------
    {
        let mut exp = 0;
        if n > 0 && sc.toks[0].k == K::Kw {
            for kind in ["script", "contract", "predicate", "library"] {
                if kind != sc.text(0) {
                    exp += 1;
                    push(&mut out, "kind", format!("program kind `{}` -> `{kind}`", sc.text(0)), vec![(sc.toks[0].s, sc.toks[0].e, kind.to_string())]);
                }
            }
        }
        expected.insert("kind", exp);
    }

    Ok((out, expected))
}

// ---------------------------------------------------------------------------------------------
// Base programs

#[derive(Clone, Debug)]
pub struct Base {
    pub name: String,
    pub origin: &'static str,
    pub src: String,
}

pub const HAND_CONTRACT: &str = r#"contract;

struct Pair {
    a: u64,
    b: bool,
}

abi Counter {
    #[storage(read)]
    fn get() -> u64;
    #[storage(read, write)]
    fn add(n: u64, p: Pair) -> u64;
    fn limit() -> u64;
}

configurable {
    LIMIT: u64 = 100,
    FLAG: bool = true,
}

storage {
    total: u64 = 0,
    last: Pair = Pair { a: 1, b: false },
}

impl Counter for Contract {
    #[storage(read)]
    fn get() -> u64 {
        storage.total.read()
    }
    #[storage(read, write)]
    fn add(n: u64, p: Pair) -> u64 {
        let t = storage.total.read() + n;
        if t < LIMIT && (p.b || FLAG) {
            storage.total.write(t);
            storage.last.write(p);
        }
        t
    }
    fn limit() -> u64 {
        LIMIT
    }
}
"#;

pub const HAND_PREDICATE: &str = r#"predicate;

configurable {
    KEY: b256 = 0x0101010101010101010101010101010101010101010101010101010101010101,
}

enum Auth {
    Owner: b256,
    Code: u64,
}

fn check(a: Auth, k: b256) -> bool {
    match a {
        Auth::Owner(o) => o == k,
        Auth::Code(c) => c == 42,
    }
}

fn main(owner: b256, code: u64) -> bool {
    check(Auth::Owner(owner), KEY) || check(Auth::Code(code), KEY)
}
"#;

pub const HAND_LIBRARY: &str = r#"library;

pub trait Shape {
    const SIDES: u64;
    fn area(self) -> u64;
    fn scale(self, k: u64) -> Self;
}

pub struct Rect<T> {
    pub w: T,
    pub h: T,
}

impl Shape for Rect<u64> {
    const SIDES: u64 = 4;
    fn area(self) -> u64 {
        self.w * self.h
    }
    fn scale(self, k: u64) -> Self {
        Rect { w: self.w * k, h: self.h * k }
    }
}

impl<T> Rect<T> {
    pub fn new(w: T, h: T) -> Self {
        Rect { w, h }
    }
    pub fn width(self) -> T {
        self.w
    }
}

pub fn total<S>(s: S, k: u64) -> u64 where S: Shape {
    s.scale(k).area() + S::SIDES
}

pub fn demo() -> u64 {
    let r = Rect::<u64>::new(2, 3);
    total(r, 2) + r.width()
}
"#;

pub const HAND_SCRIPT: &str = r#"script;

enum Op {
    Add: (u64, u64),
    Neg: u64,
    Nop: (),
}

struct Acc {
    sum: u64,
    hist: [u64; 3],
    tag: str[3],
}

fn apply(op: Op, ref mut acc: Acc) -> u64 {
    let r = match op {
        Op::Add((x, y)) => x + y,
        Op::Neg(x) => if x > 0 { x - 1 } else { 0 },
        Op::Nop => acc.sum,
    };
    acc.sum = acc.sum + r;
    r
}

fn main() -> u64 {
    let mut acc = Acc { sum: 0, hist: [0, 0, 0], tag: __to_str_array("abc") };
    let ops = [Op::Add((1, 2)), Op::Neg(5), Op::Nop];
    let mut i = 0;
    while i < 3 {
        let r = apply(ops[i], acc);
        acc.hist[i] = r;
        i += 1;
    }
    let t = (acc.sum, acc.hist[2], true);
    let s: str = "done";
    log(s);
    if t.2 && t.0 > 3 { t.0 + t.1 } else { 0 }
}
"#;

/// Seeds: hand-minimised programs for failure classes known on the unchanged tree. They keep every
/// known class exercised (and re-checked after a repair) even in the quick tier, whose base list is short.
pub const SEEDS: [(&str, &str); 8] = [
    ("seed/u256-const-rem-zero", "script;\n\nconst X: u256 = 5u256 % 0u256;\n\nfn main() -> u256 {\n    X\n}\n"),
    ("seed/code-after-return", "script;\n\nfn f() -> u64 {\n    return 1;\n    2\n}\n\nfn main() -> u64 {\n    f()\n}\n"),
    (
        "seed/generic-call-with-untyped-literal",
        "script;\n\nfn id<T>(x: T) -> T {\n    x\n}\n\nfn g(n: u8) -> u8 {\n    n\n}\n\nfn main() -> u8 {\n    g(id(31))\n}\n",
    ),
    (
        "seed/array-literal-mixed-int-suffix-in-struct-field",
        "script;\n\nstruct Acc {\n    hist: [u64; 3],\n}\n\nfn main() -> u64 {\n    let acc = Acc { hist: [0u8, 0, 0] };\n    acc.hist[0]\n}\n",
    ),
    (
        "seed/compound-assign-to-index-of-ref-mut-array",
        "script;\n\nfn f(ref mut v: [u8; 2], n: u8) {\n    v[0] += n;\n}\n\nfn main() {\n    let mut b = [1u8, 2u8];\n    f(b, 3u8);\n}\n",
    ),
    ("seed/where-bound-names-type-parameter", "library;\n\npub fn total<S>(s: S) -> u64 where S: S {\n    0\n}\n"),
    ("seed/enum-named-like-builtin-type", "script;\n\nenum u8 {\n    A: (),\n}\n\nfn main() {}\n"),
    (
        "seed/array-literal-of-arrays-with-different-lengths",
        "script;\n\nfn main() {\n    let a = [1u8, 2u8];\n    let c: [u8; 0] = [];\n    let arr = [a, c];\n}\n",
    ),
];

/// Render one generated case as a stand-alone script whose `main` is the case body (so that the
/// body is compiled without enabling tests).
pub fn render_case_as_script(c: &crate::gen::Case) -> String {
    let p = crate::gen::render_package(std::slice::from_ref(c));
    let p = p.replacen("fn main() {}\n\n", "", 1);
    p.replacen("#[test]\nfn t0() {", "fn main() {", 1)
}

fn every_nth<T: Clone>(v: &[T], step: usize, offset: usize) -> Vec<T> {
    v.iter().skip(offset).step_by(step.max(1)).cloned().collect()
}

pub fn generated_bases(thorough: bool) -> Vec<Base> {
    use crate::spaces;
    let mut out = vec![];
    let mut add = |tag: &str, cases: Vec<crate::gen::Case>, step: usize, max: usize| {
        for c in every_nth(&cases, step, 0).into_iter().take(max) {
            out.push(Base { name: format!("gen/{tag}/{}", c.desc), origin: "generated", src: render_case_as_script(&c) });
        }
    };
    if thorough {
        add("s2-1", spaces::s2(1), 7, 3);
        add("s2-2", spaces::s2(2), 7, 8);
        add("s3-0", spaces::s3(0), 7, 4);
        add("s3-1", spaces::s3(1), 7, 8);
        add("s3e", spaces::s3_enums(), 7, 4);
        add("s4p", spaces::s4_pairs(&[crate::gen::Inline::Default]), 7, 6);
        add("s4g", spaces::s4_generics(), 7, 4);
    } else {
        add("s3e", spaces::s3_enums(), 7, 1);
        add("s4g", spaces::s4_generics(), 7, 1);
    }
    out
}

pub fn hand_bases() -> Vec<Base> {
    vec![
        Base { name: "hand/contract".into(), origin: "hand", src: HAND_CONTRACT.into() },
        Base { name: "hand/predicate".into(), origin: "hand", src: HAND_PREDICATE.into() },
        Base { name: "hand/library".into(), origin: "hand", src: HAND_LIBRARY.into() },
        Base { name: "hand/script".into(), origin: "hand", src: HAND_SCRIPT.into() },
    ]
}

/// Deterministic pick of `want` small single-file std-only programs from the e2e corpus.
pub fn e2e_bases(want: usize) -> Vec<Base> {
    let root = vhcore::repo_root().join("test/src/e2e_vm_tests/test_programs/should_pass/language");
    let mut dirs: Vec<PathBuf> = std::fs::read_dir(&root)
        .map(|rd| rd.filter_map(|e| e.ok()).map(|e| e.path()).filter(|p| p.is_dir()).collect())
        .unwrap_or_default();
    dirs.sort();
    let mut cands = vec![];
    for d in dirs {
        let Ok(toml) = std::fs::read_to_string(d.join("Forc.toml")) else { continue };
        // std as the only dependency
        let deps: Vec<&str> = toml
            .split("[dependencies]")
            .nth(1)
            .unwrap_or("")
            .lines()
            .map(|l| l.trim())
            .filter(|l| !l.is_empty() && !l.starts_with('#') && !l.starts_with('['))
            .collect();
        if deps.iter().any(|l| !l.starts_with("std")) || toml.contains("experimental") {
            continue;
        }
        let Ok(rd) = std::fs::read_dir(d.join("src")) else { continue };
        let files: Vec<PathBuf> = rd.filter_map(|e| e.ok()).map(|e| e.path()).collect();
        if files.len() != 1 || !files[0].ends_with("main.sw") {
            continue;
        }
        let Ok(src) = std::fs::read_to_string(&files[0]) else { continue };
        let lines = src.lines().count();
        if !(8..60).contains(&lines) || !src.is_ascii() || src.contains("\nmod ") {
            continue;
        }
        if Scan::new(&src).is_err() {
            continue;
        }
        cands.push((d.file_name().unwrap().to_string_lossy().to_string(), src));
    }
    if cands.is_empty() {
        return vec![];
    }
    let step = (cands.len() / want.max(1)).max(1);
    cands
        .into_iter()
        .step_by(step)
        .take(want)
        .map(|(n, src)| Base { name: format!("e2e/{n}"), origin: "e2e", src })
        .collect()
}

// ---------------------------------------------------------------------------------------------
// Scale ladder

pub const LADDER_FAMILIES: [&str; 25] = [
    "consts", "locals", "fields", "args", "nested_blocks", "nested_generics", "nested_tuples", "expr_chain", "nested_if",
    "match_arms", "enum_variants", "fns", "array_repeat", "array_lit", "nested_parens", "str_len", "nested_structs",
    "tuple_width", "nested_while", "storage_fields", "configurables", "shadowing", "generic_params", "method_chain", "b256_consts",
];

/// Families whose failure mode is a process abort (deep recursion): run one rung per request anyway,
/// listed for documentation.
pub fn ladder_src(family: &str, n: usize) -> String {
    use std::fmt::Write;
    let mut o = String::new();
    match family {
        "consts" => {
            o.push_str("script;\n\nfn f(a: u64) -> u64 {\n    let mut s = a;\n");
            for i in 0..n {
                let _ = writeln!(o, "    s = s ^ 0x{:016x};", 0x1000_0000_0000_0001u64 + (i as u64) * 0x1_0001);
            }
            o.push_str("    s\n}\n\nfn main() -> u64 {\n    f(1)\n}\n");
        }
        "locals" => {
            o.push_str("script;\n\nfn f(a: u64) -> u64 {\n    let v0 = a + 1;\n");
            for i in 1..n {
                let _ = writeln!(o, "    let v{i} = v{} * 3 + a;", i - 1);
            }
            o.push_str("    let mut s = 0;\n");
            for i in 0..n {
                let _ = writeln!(o, "    s = s ^ v{i};");
            }
            o.push_str("    s\n}\n\nfn main() -> u64 {\n    f(1)\n}\n");
        }
        "fields" => {
            o.push_str("script;\n\nstruct S {\n");
            for i in 0..n {
                let _ = writeln!(o, "    f{i}: u64,");
            }
            o.push_str("}\n\nfn main() -> u64 {\n    let s = S {\n");
            for i in 0..n {
                let _ = writeln!(o, "        f{i}: {i},");
            }
            let _ = writeln!(o, "    }};\n    s.f{}\n}}", n - 1);
        }
        "args" => {
            o.push_str("script;\n\nfn g(");
            for i in 0..n {
                let _ = write!(o, "a{i}: u64, ");
            }
            let _ = writeln!(o, ") -> u64 {{\n    a{}\n}}\n\nfn main() -> u64 {{\n    g(", n - 1);
            for i in 0..n {
                let _ = write!(o, "{i}, ");
            }
            o.push_str(")\n}\n");
        }
        "nested_blocks" => {
            o.push_str("script;\n\nfn main() -> u64 {\n");
            o.push_str(&"{ ".repeat(n));
            o.push('1');
            o.push_str(&" }".repeat(n));
            o.push_str("\n}\n");
        }
        "nested_generics" => {
            o.push_str("script;\n\nfn main() {\n    let x: ");
            o.push_str(&"Option<".repeat(n));
            o.push_str("u64");
            o.push_str(&">".repeat(n));
            o.push_str(" = None;\n}\n");
        }
        "nested_tuples" => {
            o.push_str("script;\n\nfn main() {\n    let x = ");
            o.push_str(&"(".repeat(n));
            o.push_str("1u64");
            o.push_str(&",)".repeat(n));
            o.push_str(";\n}\n");
        }
        "expr_chain" => {
            o.push_str("script;\n\nfn f(a: u64) -> u64 {\n    a");
            for _ in 0..n {
                o.push_str(" + 1");
            }
            o.push_str("\n}\n\nfn main() -> u64 {\n    f(1)\n}\n");
        }
        "nested_if" => {
            o.push_str("script;\n\nfn f(a: u64) -> u64 {\n    ");
            for i in 0..n {
                let _ = write!(o, "if a == {i} {{ {i} }} else ");
            }
            let _ = writeln!(o, "{{ {n} }}\n}}\n\nfn main() -> u64 {{\n    f(1)\n}}");
        }
        "match_arms" => {
            o.push_str("script;\n\nfn f(a: u64) -> u64 {\n    match a {\n");
            for i in 0..n {
                let _ = writeln!(o, "        {i} => {},", i + 1);
            }
            o.push_str("        _ => 0,\n    }\n}\n\nfn main() -> u64 {\n    f(1)\n}\n");
        }
        "enum_variants" => {
            o.push_str("script;\n\nenum E {\n");
            for i in 0..n {
                let _ = writeln!(o, "    V{i}: u64,");
            }
            o.push_str("}\n\nfn f(e: E) -> u64 {\n    match e {\n");
            for i in 0..n {
                let _ = writeln!(o, "        E::V{i}(x) => x + {i},");
            }
            o.push_str("    }\n}\n\nfn main() -> u64 {\n    f(E::V0(1))\n}\n");
        }
        "fns" => {
            o.push_str("script;\n\nfn f0(a: u64) -> u64 {\n    a\n}\n");
            for i in 1..n {
                let _ = writeln!(o, "fn f{i}(a: u64) -> u64 {{\n    f{}(a) + {i}\n}}", i - 1);
            }
            let _ = writeln!(o, "\nfn main() -> u64 {{\n    f{}(1)\n}}", n - 1);
        }
        "array_repeat" => {
            let _ = writeln!(o, "script;\n\nfn main() -> u64 {{\n    let a = [7u64; {n}];\n    a[{}]\n}}", n - 1);
        }
        "array_lit" => {
            o.push_str("script;\n\nfn main() -> u64 {\n    let a = [");
            for i in 0..n {
                let _ = write!(o, "{i}, ");
            }
            let _ = writeln!(o, "];\n    a[{}]\n}}", n - 1);
        }
        "nested_parens" => {
            o.push_str("script;\n\nfn main() -> u64 {\n    ");
            o.push_str(&"(".repeat(n));
            o.push('1');
            o.push_str(&")".repeat(n));
            o.push_str("\n}\n");
        }
        "str_len" => {
            o.push_str("script;\n\nfn main() -> u64 {\n    let s = \"");
            for i in 0..n {
                o.push((b'a' + (i % 26) as u8) as char);
            }
            o.push_str("\";\n    s.len()\n}\n");
        }
        "nested_structs" => {
            o.push_str("script;\n\nstruct S0 {\n    v: u64,\n}\n");
            for i in 1..n {
                let _ = writeln!(o, "struct S{i} {{\n    v: S{},\n}}", i - 1);
            }
            o.push_str("\nfn main() -> u64 {\n    let x = ");
            for i in (1..n).rev() {
                let _ = write!(o, "S{i} {{ v: ");
            }
            o.push_str("S0 { v: 1 }");
            o.push_str(&" }".repeat(n - 1));
            o.push_str(";\n    x");
            o.push_str(&".v".repeat(n));
            o.push_str("\n}\n");
        }
        "tuple_width" => {
            o.push_str("script;\n\nfn main() -> u64 {\n    let t = (");
            for i in 0..n {
                let _ = write!(o, "{i}u64, ");
            }
            let _ = writeln!(o, ");\n    t.{}\n}}", n - 1);
        }
        "nested_while" => {
            o.push_str("script;\n\nfn main() -> u64 {\n    let mut c = 0;\n");
            for i in 0..n {
                let _ = writeln!(o, "let mut i{i} = 0; while i{i} < 2 {{ i{i} += 1;");
            }
            o.push_str("c += 1;\n");
            o.push_str(&"}".repeat(n));
            o.push_str("\n    c\n}\n");
        }
        "storage_fields" => {
            o.push_str("contract;\n\nabi A {\n    #[storage(read)]\n    fn get() -> u64;\n}\n\nstorage {\n");
            for i in 0..n {
                let _ = writeln!(o, "    f{i}: u64 = {i},");
            }
            let _ = writeln!(o, "}}\n\nimpl A for Contract {{\n    #[storage(read)]\n    fn get() -> u64 {{\n        storage.f{}.read()\n    }}\n}}", n - 1);
        }
        "configurables" => {
            o.push_str("script;\n\nconfigurable {\n");
            for i in 0..n {
                let _ = writeln!(o, "    C{i}: u64 = {i},");
            }
            let _ = writeln!(o, "}}\n\nfn main() -> u64 {{\n    C0 + C{}\n}}", n - 1);
        }
        "shadowing" => {
            o.push_str("script;\n\nfn f(a: u64) -> u64 {\n    let x = a;\n");
            for i in 0..n {
                let _ = writeln!(o, "    let x = x + {i};");
            }
            o.push_str("    x\n}\n\nfn main() -> u64 {\n    f(1)\n}\n");
        }
        "generic_params" => {
            o.push_str("script;\n\nfn g<");
            for i in 0..n {
                let _ = write!(o, "T{i}, ");
            }
            o.push_str(">(");
            for i in 0..n {
                let _ = write!(o, "a{i}: T{i}, ");
            }
            o.push_str(") -> T0 {\n    a0\n}\n\nfn main() -> u64 {\n    g(");
            for i in 0..n {
                let _ = write!(o, "{i}u64, ");
            }
            o.push_str(")\n}\n");
        }
        "b256_consts" => {
            // n distinct 32-byte constants = 4n data-section words
            o.push_str("script;\n\nfn main() -> b256 {\n    let a = [\n");
            for i in 0..n {
                let _ = writeln!(o, "        0x{:064x},", (i as u128 + 1) * 0x1_0000_0001u128);
            }
            let _ = writeln!(o, "    ];\n    a[{}]\n}}", n - 1);
        }
        "method_chain" => {
            o.push_str("script;\n\nfn f(a: u64) -> u64 {\n    a");
            for _ in 0..n {
                o.push_str(".add(1)");
            }
            o.push_str("\n}\n\nfn main() -> u64 {\n    f(1)\n}\n");
        }
        other => panic!("unknown ladder family {other}"),
    }
    o
}

// ---------------------------------------------------------------------------------------------
// Sequential worker driver (adaptive ladder climbing needs request-by-request decisions, which
// `pool::Pool` — a fixed request list — cannot express). Same worker process, same protocol.

pub struct Proc {
    child: Child,
    stdin: ChildStdin,
    rx: mpsc::Receiver<Option<String>>,
}

pub struct SeqDriver {
    scratch: PathBuf,
    idx: usize,
    /// address-space limit of the worker in bytes (0 = none): a runaway compilation then dies by
    /// allocation failure instead of taking the machine down
    pub mem_limit: u64,
    proc_: Option<Proc>,
}

impl SeqDriver {
    pub fn new(scratch: &Path, idx: usize, mem_limit: u64) -> SeqDriver {
        SeqDriver { scratch: scratch.to_path_buf(), idx, mem_limit, proc_: None }
    }

    fn spawn(&self) -> Proc {
        use std::os::unix::process::CommandExt;
        let exe = std::env::current_exe().expect("current_exe");
        let root = self.scratch.join(format!("seq{}", self.idx));
        let mut cmd = Command::new(exe);
        cmd.arg("worker").arg(&root).stdin(Stdio::piped()).stdout(Stdio::piped()).stderr(Stdio::null());
        let lim = self.mem_limit;
        if lim > 0 {
            unsafe {
                cmd.pre_exec(move || {
                    let r = libc::rlimit { rlim_cur: lim, rlim_max: lim };
                    libc::setrlimit(libc::RLIMIT_AS, &r);
                    Ok(())
                });
            }
        }
        let mut child = cmd.spawn().unwrap_or_else(|e| vhcore::machinery_failure(&format!("cannot spawn worker: {e}")));
        let stdin = child.stdin.take().unwrap();
        let stdout = child.stdout.take().unwrap();
        let (tx, rx) = mpsc::channel();
        std::thread::spawn(move || {
            let rd = BufReader::new(stdout);
            for line in rd.lines() {
                match line {
                    Ok(l) => {
                        if let Some(rest) = l.strip_prefix("@@RESP ") {
                            if tx.send(Some(rest.to_string())).is_err() {
                                return;
                            }
                        }
                    }
                    Err(_) => break,
                }
            }
            let _ = tx.send(None);
        });
        Proc { child, stdin, rx }
    }

    /// `Err("timeout…")` / `Err("worker exited…: <status>")` kill the worker; the next request
    /// starts a fresh one.
    pub fn request(&mut self, req: &Request, timeout: Duration) -> Result<Response, String> {
        if self.proc_.is_none() {
            self.proc_ = Some(self.spawn());
        }
        let p = self.proc_.as_mut().unwrap();
        let line = serde_json::to_string(req).unwrap();
        let res: Result<Response, String> = (|| {
            p.stdin
                .write_all(line.as_bytes())
                .and_then(|_| p.stdin.write_all(b"\n"))
                .and_then(|_| p.stdin.flush())
                .map_err(|e| format!("worker died before request: {e}"))?;
            match p.rx.recv_timeout(timeout) {
                Ok(Some(l)) => serde_json::from_str::<Response>(&l).map_err(|e| format!("bad response: {e}")),
                Ok(None) => {
                    let st = p.child.wait().ok();
                    Err(format!("worker exited during request: {st:?}"))
                }
                Err(_) => {
                    let _ = p.child.kill();
                    let _ = p.child.wait();
                    Err(format!("timeout after {timeout:?}"))
                }
            }
        })();
        if res.is_err() {
            if let Some(mut p) = self.proc_.take() {
                let _ = p.child.kill();
                let _ = p.child.wait();
            }
        }
        res
    }
}

impl Drop for SeqDriver {
    fn drop(&mut self) {
        if let Some(mut p) = self.proc_.take() {
            drop(p.stdin);
            let _ = p.child.kill();
            let _ = p.child.wait();
        }
    }
}

//! IR text round trip (C05): print → parse → print, compared up to a bijective renaming of local
//! value names (the printer names values after arena keys, which no parser can reproduce).

use sway_ir::Context;

fn is_ident_char(c: char) -> bool {
    c.is_ascii_alphanumeric() || c == '_'
}

/// Split into tokens: identifiers/numbers, single punctuation chars, string literals kept whole,
/// one `\n` token per run of line breaks.
pub fn tokens(s: &str) -> Vec<&str> {
    let mut out = vec![];
    let b = s.as_bytes();
    let mut i = 0;
    while i < b.len() {
        let c = b[i] as char;
        if c == '\n' {
            // line structure is part of the text (ASM ops are separated by nothing else)
            if out.last() != Some(&"\n") {
                out.push("\n");
            }
            i += 1;
        } else if c.is_whitespace() {
            i += 1;
        } else if c == '"' {
            let st = i;
            i += 1;
            while i < b.len() && b[i] != b'"' {
                if b[i] == b'\\' {
                    i += 1;
                }
                i += 1;
            }
            i = (i + 1).min(b.len());
            out.push(&s[st..i]);
        } else if is_ident_char(c) {
            let st = i;
            while i < b.len() && is_ident_char(b[i] as char) {
                i += 1;
            }
            out.push(&s[st..i]);
        } else {
            let st = i;
            i += 1;
            while i < b.len() && (b[i] & 0xC0) == 0x80 {
                i += 1;
            }
            out.push(&s[st..i]);
        }
    }
    out
}

/// `v<digits>v<digits>`: a value name derived from a slotmap key.
pub fn is_value_name(t: &str) -> bool {
    let Some(rest) = t.strip_prefix('v') else { return false };
    let mut parts = rest.splitn(2, 'v');
    let (Some(a), Some(b)) = (parts.next(), parts.next()) else { return false };
    !a.is_empty() && !b.is_empty() && a.bytes().all(|c| c.is_ascii_digit()) && b.bytes().all(|c| c.is_ascii_digit())
}

/// Compare two IR texts: identical token by token, except that value names may differ by a
/// renaming that is a bijection *within each function* (names are function-local).
pub fn equal_up_to_value_renaming(a: &str, b: &str) -> Result<(), String> {
    equal_up_to(a, b, &[])
}

/// Like `equal_up_to_value_renaming`, additionally ignoring every token listed in `ignore`.
pub fn equal_up_to(a: &str, b: &str, ignore: &[&str]) -> Result<(), String> {
    let ta: Vec<&str> = tokens(a).into_iter().filter(|t| !ignore.contains(t)).collect();
    let tb: Vec<&str> = tokens(b).into_iter().filter(|t| !ignore.contains(t)).collect();
    let mut fwd = std::collections::HashMap::new();
    let mut bwd = std::collections::HashMap::new();
    let n = ta.len().min(tb.len());
    for i in 0..n {
        let (x, y) = (ta[i], tb[i]);
        if x == "fn" && y == "fn" {
            fwd.clear();
            bwd.clear();
        }
        if is_value_name(x) && is_value_name(y) {
            let f = *fwd.entry(x).or_insert(y);
            let g = *bwd.entry(y).or_insert(x);
            if f != y || g != x {
                return Err(format!(
                    "value renaming is not a bijection at token {i}: `{x}` ↔ `{y}` (context: …{}…)",
                    ta[i.saturating_sub(6)..(i + 4).min(ta.len())].join(" ").replace('\n', "⏎")
                ));
            }
        } else if x != y {
            return Err(format!(
                "token {i} differs: `{}` vs `{}` (context: …{}… vs …{}…)",
                x.replace('\n', "⏎"),
                y.replace('\n', "⏎"),
                ta[i.saturating_sub(8)..(i + 5).min(ta.len())].join(" ").replace('\n', "⏎"),
                tb[i.saturating_sub(8)..(i + 5).min(tb.len())].join(" ").replace('\n', "⏎")
            ));
        }
    }
    if ta.len() != tb.len() {
        return Err(format!("token counts differ: {} vs {}", ta.len(), tb.len()));
    }
    Ok(())
}

/// print → parse → (verify, done by `parse`) → print; texts must agree. Returns the re-parsed IR.
pub fn roundtrip<'eng>(ir: &Context<'eng>) -> Result<(Context<'eng>, Vec<String>), String> {
    let s = ir.to_string();
    if let Ok(d) = std::env::var("VH_DUMP_IR") {
        // debugging aid: keep every printed stage
        static N: std::sync::atomic::AtomicUsize = std::sync::atomic::AtomicUsize::new(0);
        let n = N.fetch_add(1, std::sync::atomic::Ordering::SeqCst);
        let _ = std::fs::write(format!("{d}/ir_{n:03}.txt"), &s);
    }
    let ir2 = sway_ir::parser::parse(&s, ir.source_engine(), ir.experimental, ir.backtrace)
        .map_err(|e| {
            // quote the offending line of the printed text: the parser only gives a position
            let msg = e.to_string();
            let line = msg
                .split("error at ")
                .nth(1)
                .and_then(|r| r.split(':').next())
                .and_then(|l| l.trim().parse::<usize>().ok())
                .and_then(|l| s.lines().nth(l.saturating_sub(1)))
                .map(|l| format!(" [line: {}]", l.trim()))
                .unwrap_or_default();
            format!("re-parse/verify failed: {msg}{line}")
        })?;
    let s2 = ir2.to_string();
    let mut notes = vec![];
    if let Err(first) = equal_up_to_value_renaming(&s, &s2) {
        // One asymmetry is classified separately so that it cannot mask other differences: the
        // parser marks every `entry fn` as original entry, so `entry fn t()` comes back as
        // `entry entry_orig fn t()`. Compare again with that token dropped on both sides.
        match equal_up_to(&s, &s2, &["entry_orig"]) {
            Ok(()) => notes.push(format!("entry_orig-asymmetry: {first}")),
            Err(e) => return Err(format!("second print differs: {e}")),
        }
    }
    Ok((ir2, notes))
}

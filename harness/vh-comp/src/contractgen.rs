//! Shared helpers of the contract-level checks C11 (dispatch), C12 (storage slots) and C13
//! (configurables): a tiny type/value model with Sway printer + reference ABI encoder + reference
//! memory-size model, expectation/outcome comparison, Mode-F = Mode-A self-check, "confirm alone in
//! Mode A", replay plumbing, and an in-process script runner for patched bytecode (C13).

use crate::engine::Outcome;
use crate::pool::Pool;
use crate::worker::{BuildOut, BuildSpec, Request, Response, Worker};
use serde_json::{json, Value};
use std::collections::BTreeMap;

// ---------------------------------------------------------------------------------------------
// Types and values

#[derive(Clone, Debug, PartialEq, Eq, Hash, PartialOrd, Ord)]
pub enum Ty {
    Bool,
    U8,
    U16,
    U32,
    U64,
    U256,
    B256,
    Str(usize),
    Tuple(Vec<Ty>),
    /// struct with fields a, b, c … (declaration name derived from the field types)
    Struct(Vec<Ty>),
    /// enum with variants A, B, C … (`Ty::Unit` = unit variant)
    Enum(Vec<Ty>),
    Array(Box<Ty>, usize),
    Unit,
}

#[derive(Clone, Debug, PartialEq, Eq, Hash)]
pub enum Val {
    Bool(bool),
    /// u8/u16/u32/u64
    U(u64),
    /// u256 / b256, big endian
    Big([u8; 32]),
    Str(Vec<u8>),
    /// tuple / struct / array members
    Agg(Vec<Val>),
    Variant(usize, Box<Val>),
    Unit,
}

const LETTERS: &[u8] = b"abcdefghijklmnopqrstuvwxyz";

fn round8(n: u64) -> u64 {
    n.div_ceil(8) * 8
}

impl Ty {
    /// short mangled name used inside declaration names
    pub fn mangle(&self) -> String {
        match self {
            Ty::Bool => "bool".into(),
            Ty::U8 => "u8".into(),
            Ty::U16 => "u16".into(),
            Ty::U32 => "u32".into(),
            Ty::U64 => "u64".into(),
            Ty::U256 => "u256".into(),
            Ty::B256 => "b256".into(),
            Ty::Str(n) => format!("s{n}"),
            Ty::Tuple(m) => format!("T{}{}", m.len(), m.iter().map(|t| t.mangle()).collect::<String>()),
            Ty::Struct(m) => format!("S{}{}", m.len(), m.iter().map(|t| t.mangle()).collect::<String>()),
            Ty::Enum(m) => format!("E{}{}", m.len(), m.iter().map(|t| t.mangle()).collect::<String>()),
            Ty::Array(t, n) => format!("A{n}{}", t.mangle()),
            Ty::Unit => "unit".into(),
        }
    }

    /// Sway spelling of the type.
    pub fn sway(&self) -> String {
        match self {
            Ty::Bool => "bool".into(),
            Ty::U8 => "u8".into(),
            Ty::U16 => "u16".into(),
            Ty::U32 => "u32".into(),
            Ty::U64 => "u64".into(),
            Ty::U256 => "u256".into(),
            Ty::B256 => "b256".into(),
            Ty::Str(n) => format!("str[{n}]"),
            Ty::Tuple(m) => format!("({})", m.iter().map(|t| t.sway()).collect::<Vec<_>>().join(", ")),
            Ty::Struct(_) | Ty::Enum(_) => format!("D{}", self.mangle()),
            Ty::Array(t, n) => format!("[{}; {n}]", t.sway()),
            Ty::Unit => "()".into(),
        }
    }

    /// Collect the struct / enum declarations this type needs (name → source).
    pub fn decls(&self, out: &mut BTreeMap<String, String>) {
        match self {
            Ty::Tuple(m) => m.iter().for_each(|t| t.decls(out)),
            Ty::Array(t, _) => t.decls(out),
            Ty::Struct(m) => {
                m.iter().for_each(|t| t.decls(out));
                let fields: Vec<String> = m
                    .iter()
                    .enumerate()
                    .map(|(i, t)| format!("{}: {}", LETTERS[i] as char, t.sway()))
                    .collect();
                out.insert(self.sway(), format!("struct {} {{ {} }}", self.sway(), fields.join(", ")));
            }
            Ty::Enum(m) => {
                m.iter().for_each(|t| t.decls(out));
                let vars: Vec<String> = m
                    .iter()
                    .enumerate()
                    .map(|(i, t)| format!("{}: {}", (LETTERS[i] as char).to_ascii_uppercase(), t.sway()))
                    .collect();
                out.insert(self.sway(), format!("enum {} {{ {} }}", self.sway(), vars.join(", ")));
            }
            _ => {}
        }
    }

    /// Reference model of the in-memory size (bytes) the storage API copies for this type:
    /// bool/u8 one byte, other integers one word, 256-bit types 32 bytes, `str[N]` padded to
    /// words, aggregate members each padded to a word, enum = tag word + widest variant.
    pub fn mem_size(&self) -> u64 {
        match self {
            Ty::Bool | Ty::U8 => 1,
            Ty::U16 | Ty::U32 | Ty::U64 => 8,
            Ty::U256 | Ty::B256 => 32,
            Ty::Str(n) => round8(*n as u64),
            Ty::Tuple(m) | Ty::Struct(m) => m.iter().map(|t| round8(t.mem_size())).sum(),
            Ty::Enum(m) => 8 + m.iter().map(|t| round8(t.mem_size())).max().unwrap_or(0),
            Ty::Array(t, n) => t.mem_size() * *n as u64,
            Ty::Unit => 0,
        }
    }

    /// Number of 32-byte storage slots a storage field of this type occupies.
    pub fn slots(&self) -> u64 {
        self.mem_size().div_ceil(32).max(1)
    }

    /// Boundary values. `rich` adds a few more per leaf.
    pub fn boundary(&self, rich: bool) -> Vec<Val> {
        fn pat(seed: u8) -> [u8; 32] {
            let mut b = [0u8; 32];
            for (i, x) in b.iter_mut().enumerate() {
                *x = seed.wrapping_add(i as u8);
            }
            b
        }
        match self {
            Ty::Bool => vec![Val::Bool(false), Val::Bool(true)],
            Ty::U8 => {
                let mut v = vec![0u64, 1, 255];
                if rich {
                    v.extend([127, 128]);
                }
                v.into_iter().map(Val::U).collect()
            }
            Ty::U16 => {
                let mut v = vec![0u64, 0x0102, 0xFFFF];
                if rich {
                    v.extend([1, 0x8000]);
                }
                v.into_iter().map(Val::U).collect()
            }
            Ty::U32 => {
                let mut v = vec![0u64, 0x0102_0304, 0xFFFF_FFFF];
                if rich {
                    v.extend([1, 0x8000_0000]);
                }
                v.into_iter().map(Val::U).collect()
            }
            Ty::U64 => {
                let mut v = vec![0u64, 0x0102_0304_0506_0708, u64::MAX];
                if rich {
                    v.extend([1, 1 << 63]);
                }
                v.into_iter().map(Val::U).collect()
            }
            Ty::U256 => {
                let mut v = vec![[0u8; 32], pat(1), [0xFF; 32]];
                if rich {
                    let mut one = [0u8; 32];
                    one[31] = 1;
                    v.push(one);
                }
                v.into_iter().map(Val::Big).collect()
            }
            Ty::B256 => {
                let mut v = vec![[0u8; 32], pat(0xA1), [0xFF; 32]];
                if rich {
                    v.push([0x55; 32]);
                }
                v.into_iter().map(Val::Big).collect()
            }
            Ty::Str(n) => {
                let a: Vec<u8> = (0..*n).map(|i| LETTERS[i % 26]).collect();
                let z: Vec<u8> = vec![b'Z'; *n];
                vec![Val::Str(a), Val::Str(z)]
            }
            Ty::Tuple(m) | Ty::Struct(m) => {
                let per: Vec<Vec<Val>> = m.iter().map(|t| t.boundary(rich)).collect();
                product(&per).into_iter().map(Val::Agg).collect()
            }
            Ty::Array(t, n) => {
                // all-equal arrays for every boundary value, plus one ascending array
                let b = t.boundary(rich);
                let mut out: Vec<Val> = b.iter().map(|v| Val::Agg(vec![v.clone(); *n])).collect();
                out.push(Val::Agg((0..*n).map(|i| b[(i + 1) % b.len()].clone()).collect()));
                out
            }
            Ty::Enum(m) => {
                let mut out = vec![];
                for (i, t) in m.iter().enumerate() {
                    for v in t.boundary(rich) {
                        out.push(Val::Variant(i, Box::new(v)));
                    }
                }
                out
            }
            Ty::Unit => vec![Val::Unit],
        }
    }
}

pub fn product<T: Clone>(per: &[Vec<T>]) -> Vec<Vec<T>> {
    let mut out: Vec<Vec<T>> = vec![vec![]];
    for choices in per {
        let mut next = Vec::with_capacity(out.len() * choices.len());
        for prefix in &out {
            for c in choices {
                let mut p = prefix.clone();
                p.push(c.clone());
                next.push(p);
            }
        }
        out = next;
    }
    out
}

impl Val {
    /// Sway literal / constructor expression of this value at type `ty`.
    pub fn sway(&self, ty: &Ty) -> String {
        match (self, ty) {
            (Val::Bool(b), _) => format!("{b}"),
            (Val::U(n), Ty::U8) => format!("{n}u8"),
            (Val::U(n), Ty::U16) => format!("{n}u16"),
            (Val::U(n), Ty::U32) => format!("{n}u32"),
            (Val::U(n), _) => format!("{n}u64"),
            (Val::Big(b), Ty::U256) => format!("0x{}u256", hex::encode(b)),
            (Val::Big(b), _) => format!("0x{}", hex::encode(b)),
            (Val::Str(s), _) => format!("__to_str_array(\"{}\")", String::from_utf8_lossy(s)),
            (Val::Agg(vs), Ty::Tuple(ts)) => format!(
                "({})",
                vs.iter().zip(ts).map(|(v, t)| v.sway(t)).collect::<Vec<_>>().join(", ")
            ),
            (Val::Agg(vs), Ty::Struct(ts)) => format!(
                "{} {{ {} }}",
                ty.sway(),
                vs.iter()
                    .zip(ts)
                    .enumerate()
                    .map(|(i, (v, t))| format!("{}: {}", LETTERS[i] as char, v.sway(t)))
                    .collect::<Vec<_>>()
                    .join(", ")
            ),
            (Val::Agg(vs), Ty::Array(t, _)) => {
                format!("[{}]", vs.iter().map(|v| v.sway(t)).collect::<Vec<_>>().join(", "))
            }
            (Val::Variant(i, v), Ty::Enum(ts)) => {
                let name = (LETTERS[*i] as char).to_ascii_uppercase();
                if ts[*i] == Ty::Unit {
                    format!("{}::{name}", ty.sway())
                } else {
                    format!("{}::{name}({})", ty.sway(), v.sway(&ts[*i]))
                }
            }
            (Val::Unit, _) => "()".into(),
            (v, t) => panic!("value {v:?} does not fit type {t:?}"),
        }
    }

    /// Reference ABI encoding (Fuel ABI encoding v1).
    pub fn abi(&self, ty: &Ty) -> Vec<u8> {
        let mut out = vec![];
        self.abi_into(ty, &mut out);
        out
    }

    fn abi_into(&self, ty: &Ty, out: &mut Vec<u8>) {
        match (self, ty) {
            (Val::Bool(b), _) => out.push(*b as u8),
            (Val::U(n), Ty::U8) => out.push(*n as u8),
            (Val::U(n), Ty::U16) => out.extend((*n as u16).to_be_bytes()),
            (Val::U(n), Ty::U32) => out.extend((*n as u32).to_be_bytes()),
            (Val::U(n), _) => out.extend(n.to_be_bytes()),
            (Val::Big(b), _) => out.extend(b),
            (Val::Str(s), _) => out.extend(s),
            (Val::Agg(vs), Ty::Tuple(ts)) | (Val::Agg(vs), Ty::Struct(ts)) => {
                for (v, t) in vs.iter().zip(ts) {
                    v.abi_into(t, out);
                }
            }
            (Val::Agg(vs), Ty::Array(t, _)) => {
                for v in vs {
                    v.abi_into(t, out);
                }
            }
            (Val::Variant(i, v), Ty::Enum(ts)) => {
                out.extend((*i as u64).to_be_bytes());
                v.abi_into(&ts[*i], out);
            }
            (Val::Unit, _) => {}
            (v, t) => panic!("value {v:?} does not fit type {t:?}"),
        }
    }
}

pub const LEAVES_C12: &[Ty] = &[
    Ty::Bool,
    Ty::U8,
    Ty::U16,
    Ty::U32,
    Ty::U64,
    Ty::U256,
    Ty::B256,
    Ty::Str(1),
    Ty::Str(9),
    Ty::Str(33),
];

// ---------------------------------------------------------------------------------------------
// Expectations

/// What a `#[test]` entry must produce: log payloads in order, optionally ending in a revert.
#[derive(Clone, Debug, PartialEq, Eq, Hash, serde::Serialize, serde::Deserialize)]
pub struct Expect {
    pub revert: Option<u64>,
    pub logs: Vec<String>, // hex
}

impl Expect {
    pub fn ok(logs: Vec<Vec<u8>>) -> Expect {
        Expect { revert: None, logs: logs.iter().map(hex::encode).collect() }
    }
    pub fn revert(code: u64, logs: Vec<Vec<u8>>) -> Expect {
        Expect { revert: Some(code), logs: logs.iter().map(hex::encode).collect() }
    }
    pub fn of_outcome(o: &Outcome) -> Expect {
        match o {
            Outcome::Ok { logs } => Expect {
                revert: None,
                logs: logs.iter().map(|l| hex::encode(&l.data)).collect(),
            },
            Outcome::Revert { code, logs } => Expect {
                revert: Some(*code),
                logs: logs.iter().map(|l| hex::encode(&l.data)).collect(),
            },
        }
    }
    pub fn matches(&self, o: &Outcome) -> bool {
        *self == Expect::of_outcome(o)
    }
}

pub fn u64be(x: u64) -> Vec<u8> {
    x.to_be_bytes().to_vec()
}

// ---------------------------------------------------------------------------------------------
// Requests, self-check, confirmation

pub fn spec(label: &str, release: bool, run_tests: bool, artifacts: bool, mode_a: bool) -> BuildSpec {
    BuildSpec {
        label: label.into(),
        release,
        run_tests,
        want_artifacts: artifacts,
        mode_a,
        want_diagnostics: true,
        ..Default::default()
    }
}

pub fn request(id: u64, name: &str, src: &str, builds: Vec<BuildSpec>) -> Request {
    Request {
        id,
        name: name.into(),
        src: src.into(),
        extra_files: vec![],
        with_std: true,
        builds,
        existing_dir: None,
    }
}

/// Mode F = Mode A self-check, folded into the main pool run (so std is type-checked once per
/// worker, not once more for the self-check): the requests at `idx` get every build repeated in
/// Mode A (`builds[n + k]` mirrors `builds[k]`).
pub fn attach_self_check(reqs: &mut [Request], idx: &[usize]) {
    for &i in idx {
        let n = reqs[i].builds.len();
        for k in 0..n {
            let mut a = reqs[i].builds[k].clone();
            a.mode_a = true;
            a.label = format!("A:{}", a.label);
            reqs[i].builds.push(a);
        }
    }
}

/// Compare the Mode F and Mode A halves of the self-check requests: identical artefact hashes and
/// identical per-test outcomes. Returns the number of packages compared.
pub fn verify_self_check(reqs: &[Request], results: &[Result<Response, String>], idx: &[usize]) -> Result<usize, String> {
    let mut n = 0;
    for &i in idx {
        let r = &reqs[i];
        let resp = results[i].as_ref().map_err(|e| format!("self-check: worker failed on {}: {e}", r.name))?;
        let half = resp.builds.len() / 2;
        for k in 0..half {
            let (f, a) = (&resp.builds[k], &resp.builds[half + k]);
            if f.ok != a.ok {
                return Err(format!(
                    "self-check: build result differs on {}: F ok={} ({}{:?}) A ok={} ({}{:?})",
                    r.name, f.ok, f.error, f.panic, a.ok, a.error, a.panic
                ));
            }
            if !f.ok {
                continue; // both fail: the main evaluation reports it
            }
            if f.bytecode_hash != a.bytecode_hash || f.abi_hash != a.abi_hash || f.storage_hash != a.storage_hash {
                return Err(format!(
                    "self-check: Mode F and Mode A artefacts differ on {}: bytecode {} vs {}, abi {} vs {}, storage {} vs {}",
                    r.name, f.bytecode_hash, a.bytecode_hash, f.abi_hash, a.abi_hash, f.storage_hash, a.storage_hash
                ));
            }
            if crate::worker::tests_map(f) != crate::worker::tests_map(a) {
                return Err(format!("self-check: Mode F and Mode A test outcomes differ on {}", r.name));
            }
            if f.run_error != a.run_error {
                return Err(format!("self-check: run error differs on {}: {} / {}", r.name, f.run_error, a.run_error));
            }
        }
        n += 1;
    }
    Ok(n)
}

/// `Pool::run`, then one retry (fresh workers) of the requests whose worker died or hit the
/// wall-clock watchdog — on an oversubscribed box a request can starve without anything being wrong.
/// A request that fails twice keeps its `Err` and is reported by the caller.
pub fn run_with_retry(pool: &Pool, reqs: &[Request]) -> (Vec<Result<Response, String>>, usize) {
    let mut results = pool.run(reqs);
    let failed: Vec<usize> = results.iter().enumerate().filter(|(_, r)| r.is_err()).map(|(i, _)| i).collect();
    if !failed.is_empty() {
        let again: Vec<Request> = failed.iter().map(|&i| reqs[i].clone()).collect();
        for (k, r) in pool.run(&again).into_iter().enumerate() {
            if r.is_ok() {
                results[failed[k]] = r;
            }
        }
    }
    (results, failed.len())
}

/// Rebuild one package alone in Mode A through the pool (fresh worker process).
pub fn build_alone_mode_a(pool: &Pool, name: &str, src: &str, mut s: BuildSpec) -> Result<BuildOut, String> {
    s.mode_a = true;
    s.label = "A-alone".into();
    let req = request(0, name, src, vec![s]);
    let mut res = pool.run(std::slice::from_ref(&req));
    let resp: Response = res.remove(0)?;
    resp.builds.into_iter().next().ok_or_else(|| "no build output".to_string())
}

/// Rebuild several packages, each alone in Mode A, in parallel (fresh worker processes).
pub fn build_many_mode_a(pool: &Pool, items: &[(String, String, BuildSpec)]) -> Vec<Result<BuildOut, String>> {
    let reqs: Vec<Request> = items
        .iter()
        .enumerate()
        .map(|(i, (name, src, s))| {
            let mut s = s.clone();
            s.mode_a = true;
            s.label = "A-alone".into();
            request(i as u64, name, src, vec![s])
        })
        .collect();
    pool.run(&reqs)
        .into_iter()
        .map(|r| r.and_then(|resp| resp.builds.into_iter().next().ok_or_else(|| "no build output".to_string())))
        .collect()
}

/// Reduce a generated package source to a single `#[test]` entry (everything before the first
/// `#[test]` is kept).
pub fn keep_only_test(src: &str, test: &str) -> String {
    let Some(first) = src.find("#[test]") else { return src.to_string() };
    let (head, tests) = src.split_at(first);
    let needle = format!("fn {test}()");
    let mut out = head.to_string();
    for chunk in tests.split("#[test]").filter(|c| !c.trim().is_empty()) {
        if chunk.contains(&needle) {
            out.push_str("#[test]");
            out.push_str(chunk);
        }
    }
    out
}

/// In-process Mode A build (used by `replay`).
pub fn build_in_process(scratch: &str, name: &str, src: &str, mut s: BuildSpec) -> BuildOut {
    crate::install_panic_hook();
    s.mode_a = true;
    let root = vhcore::work_dir(scratch);
    let mut w = Worker::new(root);
    let req = request(0, name, src, vec![s]);
    w.handle(&req).builds.remove(0)
}

pub fn build_failure_text(b: &BuildOut) -> String {
    if let Some(p) = &b.panic {
        format!("compiler panic `{}` at {}", vhcore::truncate(p, 200), b.panic_loc)
    } else {
        let d: Vec<String> = b.diagnostics.iter().take(3).map(|d| d.message.clone()).collect();
        format!("build error: {} {}", vhcore::truncate(&b.error, 200), vhcore::truncate(&d.join(" | "), 400))
    }
}

/// Class-key fragment for a failed build: panic location or first diagnostic, digits stripped.
pub fn build_failure_key(b: &BuildOut) -> String {
    if b.panic.is_some() {
        // location relative to the repository root (works for /repo and for lab worktrees)
        let loc = b.panic_loc.as_str();
        let rel = loc.find("/sway-").or_else(|| loc.find("/forc-")).map(|p| &loc[p + 1..]).unwrap_or(loc);
        format!("panic@{rel}")
    } else {
        let first = b
            .diagnostics
            .first()
            .map(|d| d.message.clone())
            .unwrap_or_else(|| b.error.clone());
        let first: String = first.lines().next().unwrap_or("").chars().filter(|c| !c.is_ascii_digit()).take(80).collect();
        format!("compile-error:{first}")
    }
}

/// Debug command shared by the three binaries: `<bin> try <file.sw> [release]` compiles the file in
/// Mode F and Mode A with tests and artefacts and prints everything.
pub fn try_file(scratch: &str, path: &str, release: bool) -> i32 {
    crate::install_panic_hook();
    let src = std::fs::read_to_string(path).unwrap();
    let root = vhcore::work_dir(scratch);
    let mut w = Worker::new(root);
    let req = request(
        1,
        "try_pkg",
        &src,
        vec![spec("F", release, true, true, false), spec("A", release, true, true, true)],
    );
    let t0 = std::time::Instant::now();
    let resp = w.handle(&req);
    for b in &resp.builds {
        println!(
            "{} ok={} err={} panic={:?}@{} bc={} len={} ms={} abi={} storage={}",
            b.label, b.ok, b.error, b.panic, b.panic_loc, b.bytecode_hash, b.bytecode_len, b.millis,
            vhcore::truncate(&b.abi_json, 3000), vhcore::truncate(&b.storage_json, 3000)
        );
        for d in b.diagnostics.iter().chain(b.warnings.iter()) {
            println!("   diag error={} {}..{} {}", d.is_error, d.start, d.end, d.message);
        }
        for t in &b.tests {
            println!("   {} {:?} gas={}", t.name, t.outcome.as_ref().map(Expect::of_outcome), t.gas);
        }
        if !b.run_error.is_empty() {
            println!("   run_error {}", b.run_error);
        }
    }
    println!("total {:?}", t0.elapsed());
    0
}

// ---------------------------------------------------------------------------------------------
// Replay files of kind "tests": a package source + one test name + its expected outcome.

pub fn replay_tests_json(name: &str, src: &str, release: bool, test: &str, expect: &Expect, observed: &Value) -> Value {
    json!({"kind": "tests", "name": name, "release": release, "test": test, "expect": expect, "observed": observed, "src": src})
}

/// Re-execute a "tests" replay in-process in Mode A. Returns 1 when it still violates.
pub fn replay_tests(scratch: &str, r: &Value) -> i32 {
    let name = r["name"].as_str().unwrap_or("replay_pkg");
    let src = r["src"].as_str().unwrap_or("");
    let release = r["release"].as_bool().unwrap_or(false);
    let test = r["test"].as_str().unwrap_or("");
    let expect: Option<Expect> = serde_json::from_value(r["expect"].clone()).ok();
    let b = build_in_process(scratch, name, src, spec("replay", release, true, true, true));
    if !b.ok {
        println!("build failed: {}", build_failure_text(&b));
        return 1;
    }
    if !b.run_error.is_empty() {
        println!("run error: {}", b.run_error);
        return 1;
    }
    let Some(t) = b.tests.iter().find(|t| t.name == test) else {
        println!("test {test} not found in the rebuilt package");
        return 1;
    };
    let obs = t.outcome.as_ref().map(Expect::of_outcome);
    println!("test {test}: expected {:?}", expect);
    println!("test {test}: observed {:?}", obs);
    if obs == expect {
        println!("replay: no longer violates");
        0
    } else {
        println!("replay: still violates");
        1
    }
}

// ---------------------------------------------------------------------------------------------
// Running a (patched) script bytecode in the VM — the same recipe as the e2e harness `runs_in_vm`
// and forc-test's executor: a Script transaction with one coin input, maxed limits,
// `Interpreter::transact`.

pub struct ScriptRun {
    pub state: String,
    pub revert: Option<u64>,
    pub logs: Vec<Vec<u8>>,
}

pub fn run_script(bytecode: &[u8]) -> Result<ScriptRun, String> {
    use fuel_tx::{
        ConsensusParameters, ContractParameters, Finalizable, ScriptParameters, TransactionBuilder, TxParameters,
    };
    use fuel_vm::checked_transaction::builder::TransactionBuilderExt;
    use fuel_vm::interpreter::{Interpreter, InterpreterParams, MemoryInstance};
    use fuel_vm::prelude::SecretKey;
    use fuel_vm::state::ProgramState;
    use fuel_vm::storage::MemoryStorage;

    let script_params = ScriptParameters::DEFAULT
        .with_max_script_length(u64::MAX)
        .with_max_script_data_length(u64::MAX);
    let tx_params = TxParameters::DEFAULT.with_max_gas_per_tx(u64::MAX).with_max_size(u64::MAX);
    let contract_params = ContractParameters::DEFAULT
        .with_contract_max_size(u64::MAX)
        .with_max_storage_slots(u64::MAX);
    let params = ConsensusParameters::V1(fuel_tx::consensus_parameters::ConsensusParametersV1 {
        script_params,
        tx_params,
        contract_params,
        gas_costs: fuel_tx::GasCostsValues::default().into(),
        block_gas_limit: u64::MAX,
        ..Default::default()
    });

    let secret = SecretKey::try_from(&[7u8; 32][..]).map_err(|e| format!("secret key: {e:?}"))?;
    let mut tb = TransactionBuilder::script(bytecode.to_vec(), vec![]);
    tb.with_params(params)
        .add_unsigned_coin_input(
            secret,
            fuel_tx::UtxoId::new(fuel_tx::Bytes32::zeroed(), 0),
            1,
            fuel_tx::AssetId::BASE,
            fuel_tx::TxPointer::new(0u32.into(), 0),
        )
        .maturity(1.into());
    let consensus_params = tb.get_params().clone();
    let tmp_tx = tb.clone().finalize();
    use fuel_tx::Chargeable;
    let max_gas = tmp_tx.max_gas(consensus_params.gas_costs(), consensus_params.fee_params()) + 1;
    tb.script_gas_limit(consensus_params.tx_params().max_gas_per_tx() - max_gas);
    let block_height = (u32::MAX >> 1).into();
    let tx = tb
        .finalize_checked(block_height)
        .into_ready(0, consensus_params.gas_costs(), consensus_params.fee_params(), None)
        .map_err(|e| format!("into_ready: {e:?}"))?;
    let interpreter_params = InterpreterParams::new(0, &consensus_params);
    let mut i: Interpreter<MemoryInstance, MemoryStorage, fuel_tx::Script> =
        Interpreter::with_storage(MemoryInstance::new(), MemoryStorage::default(), interpreter_params);
    let (state, receipts) = match i.transact(tx) {
        Ok(t) => (*t.state(), t.receipts().to_vec()),
        Err(e) => return Err(format!("vm error: {e:?}")),
    };
    let logs = crate::engine::logs_of(&receipts).into_iter().map(|l| l.data).collect();
    let revert = match state {
        ProgramState::Revert(c) => Some(c),
        _ => None,
    };
    // a VM panic shows up as a Panic receipt with state Revert/Return; keep the text for diagnosis
    let panic = receipts.iter().find_map(|r| match r {
        fuel_tx::Receipt::Panic { reason, .. } => Some(format!("{:?}", reason.reason())),
        _ => None,
    });
    Ok(ScriptRun {
        state: match panic {
            Some(p) => format!("{state:?} panic={p}"),
            None => format!("{state:?}"),
        },
        revert,
        logs,
    })
}

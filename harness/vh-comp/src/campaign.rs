//! Batching, bisection and confirmation shared by the program-quantified checks (C01–C08).

use crate::engine::Outcome;
use crate::gen::{render_package, Case, Expect};
use crate::pool::Pool;
use crate::worker::{BuildOut, BuildSpec, Request, Response};
use std::collections::BTreeMap;

/// Result of one case under one build label.
#[derive(Clone, Debug)]
pub enum CaseBuild {
    /// the package containing the case was built and the test ran
    Ran(Outcome),
    /// the case, alone in a package, does not build (error text / panic)
    BuildFailed { error: String, panic: Option<String>, panic_loc: String },
    /// built but the test entry is missing from the results
    Missing,
}

pub struct CaseResult {
    pub case_idx: usize,
    pub builds: BTreeMap<String, CaseBuild>,
}

pub struct BatchInfo {
    pub first: usize,
    pub len: usize,
    pub outs: Vec<BuildOut>,
}

pub struct CampaignResult {
    pub per_case: Vec<CaseResult>,
    pub batches: Vec<BatchInfo>,
    pub worker_failures: Vec<String>,
    pub packages_built: usize,
}

pub fn expect_mismatch(out: &Outcome, exp: &Expect) -> Option<String> {
    let datas = |logs: &Vec<crate::engine::LogRec>| -> Vec<Vec<u8>> { logs.iter().map(|l| l.data.clone()).collect() };
    match (out, exp) {
        (Outcome::Ok { logs }, Expect::Ok(el)) => {
            let d = datas(logs);
            if &d == el {
                None
            } else {
                Some(format!("logs differ: got {} expected {}", show_logs(&d), show_logs(el)))
            }
        }
        (Outcome::Revert { code, logs }, Expect::Revert(ec, el)) => {
            let d = datas(logs);
            if code != ec {
                Some(format!("revert code {code:#x}, expected {ec:#x}"))
            } else if &d != el {
                Some(format!("logs before revert differ: got {} expected {}", show_logs(&d), show_logs(el)))
            } else {
                None
            }
        }
        (Outcome::Ok { logs }, Expect::Revert(ec, _)) => Some(format!(
            "expected revert({ec:#x}) but the program returned, logs {}",
            show_logs(&datas(logs))
        )),
        (Outcome::Revert { code, logs }, Expect::Ok(el)) => Some(format!(
            "unexpected revert({code:#x}) after logs {}; expected logs {}",
            show_logs(&datas(logs)),
            show_logs(el)
        )),
    }
}

pub fn show_logs(l: &[Vec<u8>]) -> String {
    let parts: Vec<String> = l.iter().map(|b| hex::encode(b)).collect();
    format!("[{}]", parts.join(","))
}

fn request(id: u64, name: &str, cases: &[Case], builds: &[BuildSpec]) -> Request {
    Request {
        id,
        name: name.to_string(),
        src: render_package(cases),
        extra_files: vec![],
        with_std: true,
        builds: builds.to_vec(),
        existing_dir: None,
    }
}

fn build_failed(b: &BuildOut) -> bool {
    !b.ok || b.panic.is_some() || (!b.run_error.is_empty())
}

/// Run all `cases` in batches of `batch` under every build spec. A batch whose build fails is
/// bisected (delta debugging) so that every case ends up either `Ran` or individually
/// `BuildFailed`. Deterministic: batches are consecutive slices of `cases`.
pub fn run_campaign(pool: &Pool, prefix: &str, cases: &[Case], batch: usize, builds: &[BuildSpec]) -> CampaignResult {
    let mut per_case: Vec<CaseResult> = (0..cases.len())
        .map(|i| CaseResult { case_idx: i, builds: BTreeMap::new() })
        .collect();
    let mut batches = vec![];
    let mut worker_failures = vec![];
    let mut packages_built = 0usize;
    // work list of (first, len, builds still to do)
    let mut work: Vec<(usize, usize, Vec<BuildSpec>)> = vec![];
    let mut i = 0;
    while i < cases.len() {
        let len = batch.min(cases.len() - i);
        work.push((i, len, builds.to_vec()));
        i += len;
    }
    let mut round = 0;
    while !work.is_empty() {
        let reqs: Vec<Request> = work
            .iter()
            .enumerate()
            .map(|(k, (first, len, b))| {
                request(k as u64, &format!("{prefix}_r{round}_{k}"), &cases[*first..first + len], b)
            })
            .collect();
        eprintln!("[campaign {prefix}] round {round}: {} packages", reqs.len());
        let resps = pool.run(&reqs);
        packages_built += reqs.len();
        let mut next = vec![];
        for ((first, len, specs), resp) in work.iter().zip(resps) {
            match resp {
                Err(reason) => {
                    if *len == 1 {
                        worker_failures.push(format!("case {first} `{}`: {reason}", cases[*first].desc));
                        for s in specs {
                            per_case[*first].builds.insert(
                                s.label.clone(),
                                CaseBuild::BuildFailed {
                                    error: format!("worker failure: {reason}"),
                                    panic: Some(reason.clone()),
                                    panic_loc: "worker-died".into(),
                                },
                            );
                        }
                    } else {
                        let h = len / 2;
                        next.push((*first, h, specs.clone()));
                        next.push((first + h, len - h, specs.clone()));
                    }
                }
                Ok(Response { builds: outs, .. }) => {
                    let mut failed_specs = vec![];
                    for (spec, out) in specs.iter().zip(outs.iter()) {
                        if build_failed(out) {
                            if *len == 1 {
                                per_case[*first].builds.insert(
                                    spec.label.clone(),
                                    CaseBuild::BuildFailed {
                                        error: if out.error.is_empty() { out.run_error.clone() } else { out.error.clone() }
                                            + &out
                                                .diagnostics
                                                .iter()
                                                .take(3)
                                                .map(|d| format!(" | {}", d.message))
                                                .collect::<String>(),
                                        panic: out.panic.clone(),
                                        panic_loc: out.panic_loc.clone(),
                                    },
                                );
                            } else {
                                failed_specs.push(spec.clone());
                            }
                        } else {
                            let m = crate::worker::tests_map(out);
                            for k in 0..*len {
                                let r = match m.get(&format!("t{k}")) {
                                    Some(o) => CaseBuild::Ran(o.clone()),
                                    None => CaseBuild::Missing,
                                };
                                per_case[first + k].builds.insert(spec.label.clone(), r);
                            }
                        }
                    }
                    if !failed_specs.is_empty() {
                        let h = len / 2;
                        next.push((*first, h, failed_specs.clone()));
                        next.push((first + h, len - h, failed_specs));
                    }
                    batches.push(BatchInfo { first: *first, len: *len, outs });
                }
            }
        }
        work = next;
        round += 1;
        if round > 40 {
            vhcore::machinery_failure("bisection did not converge");
        }
    }
    CampaignResult { per_case, batches, worker_failures, packages_built }
}

/// Rebuild one case alone through the plain forc path (Mode A) under the given (label, release)
/// profiles and return its outcomes — used to confirm a violation independently of its batch.
pub fn confirm_alone(pool: &Pool, prefix: &str, case: &Case, specs: &[BuildSpec]) -> BTreeMap<String, CaseBuild> {
    let specs: Vec<BuildSpec> = specs
        .iter()
        .map(|s| BuildSpec { mode_a: s.pass_ops.is_empty() && !s.skip_asm_opt && !s.verify_each && s.roundtrip_stages.is_empty(), ..s.clone() })
        .collect();
    let req = request(0, &format!("{prefix}_confirm"), std::slice::from_ref(case), &specs);
    let mut out = BTreeMap::new();
    match pool.run(&[req]).pop().unwrap() {
        Err(reason) => {
            for s in &specs {
                out.insert(
                    s.label.clone(),
                    CaseBuild::BuildFailed { error: reason.clone(), panic: Some(reason.clone()), panic_loc: "worker-died".into() },
                );
            }
        }
        Ok(resp) => {
            for (s, b) in specs.iter().zip(resp.builds.iter()) {
                let r = if build_failed(b) {
                    CaseBuild::BuildFailed { error: b.error.clone(), panic: b.panic.clone(), panic_loc: b.panic_loc.clone() }
                } else {
                    match crate::worker::tests_map(b).get("t0") {
                        Some(o) => CaseBuild::Ran(o.clone()),
                        None => CaseBuild::Missing,
                    }
                };
                out.insert(s.label.clone(), r);
            }
        }
    }
    out
}

pub fn spec(label: &str, release: bool) -> BuildSpec {
    BuildSpec { label: label.into(), release, run_tests: true, ..Default::default() }
}

/// Self-check binding Mode F to Mode A on one batch: identical bytecode, ABI and storage slots.
pub fn mode_f_equals_mode_a(pool: &Pool, prefix: &str, cases: &[Case]) -> Result<(), String> {
    let specs = vec![
        BuildSpec { label: "F-debug".into(), release: false, run_tests: true, ..Default::default() },
        BuildSpec { label: "A-debug".into(), release: false, run_tests: true, mode_a: true, ..Default::default() },
        BuildSpec { label: "F-release".into(), release: true, run_tests: true, ..Default::default() },
        BuildSpec { label: "A-release".into(), release: true, run_tests: true, mode_a: true, ..Default::default() },
    ];
    let req = request(0, &format!("{prefix}_selfcheck"), cases, &specs);
    let resp = pool.run(&[req]).pop().unwrap().map_err(|e| format!("self-check worker failure: {e}"))?;
    for pair in resp.builds.chunks(2) {
        let (f, a) = (&pair[0], &pair[1]);
        if !f.ok || !a.ok {
            return Err(format!("self-check build failed: {} ok={} ({}), {} ok={} ({})", f.label, f.ok, f.error, a.label, a.ok, a.error));
        }
        if f.bytecode_hash != a.bytecode_hash || f.abi_hash != a.abi_hash || f.storage_hash != a.storage_hash {
            return Err(format!(
                "Mode F and Mode A artefacts differ for {}: bytecode {} vs {}, abi {} vs {}",
                f.label, f.bytecode_hash, a.bytecode_hash, f.abi_hash, a.abi_hash
            ));
        }
    }
    Ok(())
}

/// Differential comparison of the same case under two builds (C02/C03/C07): identical ordered log
/// payloads and log ids, identical revert/non-revert status and revert code. Gas, bytecode size
/// and metadata are not compared. Returns (failure kind, description).
pub fn diff_builds(a: &CaseBuild, b: &CaseBuild) -> Option<(String, String)> {
    match (a, b) {
        (CaseBuild::Ran(x), CaseBuild::Ran(y)) => {
            if x == y {
                None
            } else {
                let kind = match (x, y) {
                    (Outcome::Ok { .. }, Outcome::Revert { .. }) => "second-reverts",
                    (Outcome::Revert { .. }, Outcome::Ok { .. }) => "first-reverts",
                    (Outcome::Revert { code: c1, .. }, Outcome::Revert { code: c2, .. }) if c1 != c2 => "revert-codes-differ",
                    _ => "logs-differ",
                };
                Some((kind.into(), format!("{} vs {}", show_outcome(x), show_outcome(y))))
            }
        }
        (CaseBuild::Ran(_), CaseBuild::BuildFailed { error, panic, panic_loc }) => Some((
            if panic.is_some() { format!("second-build-panics@{panic_loc}") } else { "second-build-rejected".into() },
            format!("second build failed: {error} {panic:?}"),
        )),
        (CaseBuild::BuildFailed { error, panic, panic_loc }, CaseBuild::Ran(_)) => Some((
            if panic.is_some() { format!("first-build-panics@{panic_loc}") } else { "first-build-rejected".into() },
            format!("first build failed: {error} {panic:?}"),
        )),
        (CaseBuild::BuildFailed { .. }, CaseBuild::BuildFailed { .. }) => None,
        (CaseBuild::Missing, CaseBuild::Missing) => None,
        _ => Some(("test-entry-missing".into(), "test entry missing in one build".into())),
    }
}

pub fn show_outcome(o: &Outcome) -> String {
    match o {
        Outcome::Ok { logs } => format!("ok{}", show_logs(&logs.iter().map(|l| l.data.clone()).collect::<Vec<_>>())),
        Outcome::Revert { code, logs } => format!(
            "revert({code:#x}){}",
            show_logs(&logs.iter().map(|l| l.data.clone()).collect::<Vec<_>>())
        ),
    }
}

/// Narrow shape descriptor of a case: space + operator / construct family, never operand values.
pub fn shape_of(c: &Case) -> String {
    let d = &c.desc;
    let head: Vec<&str> = d.split_whitespace().collect();
    match c.space {
        "S1" | "S1d2" | "S1cast" => {
            let ops: Vec<&str> = head
                .iter()
                .skip(1)
                .filter(|t| t.chars().all(|c| !c.is_ascii_alphanumeric() && c != '(' && c != ')'))
                .copied()
                .collect();
            format!("{} {}", head.first().copied().unwrap_or(""), ops.join(" "))
        }
        _ => head.first().copied().unwrap_or("").split('#').next().unwrap_or("").to_string(),
    }
}

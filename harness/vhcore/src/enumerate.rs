//! Bounded-exhaustive enumerators (no sampling anywhere).

/// Number of strings of length exactly `len` over an alphabet of `k` symbols.
pub fn count_exact(k: usize, len: usize) -> u64 {
    (k as u64).pow(len as u32)
}

/// Number of strings of length `0..=max_len`.
pub fn count_upto(k: usize, max_len: usize) -> u64 {
    (0..=max_len).map(|l| count_exact(k, l)).sum()
}

/// Calls `f` on every string of length exactly `len` over `alphabet` (symbols may be multi-char),
/// whose first `fixed.len()` symbols are `fixed` (indices into the alphabet). Odometer order.
pub fn for_each_with_prefix(
    alphabet: &[&str],
    len: usize,
    fixed: &[usize],
    f: &mut dyn FnMut(&[usize], &str),
) {
    assert!(fixed.len() <= len);
    let k = alphabet.len();
    let mut idx: Vec<usize> = fixed.to_vec();
    idx.resize(len, 0);
    let mut buf = String::new();
    loop {
        buf.clear();
        for &i in &idx {
            buf.push_str(alphabet[i]);
        }
        f(&idx, &buf);
        // increment the free positions
        let mut p = len;
        loop {
            if p == fixed.len() {
                return;
            }
            p -= 1;
            idx[p] += 1;
            if idx[p] < k {
                break;
            }
            idx[p] = 0;
        }
    }
}

/// Shards (symbol-index prefixes of length `min(depth, len)`) for strings of length exactly `len`.
pub fn shards(k: usize, len: usize, depth: usize) -> Vec<Vec<usize>> {
    let d = depth.min(len);
    let mut out = vec![vec![]];
    for _ in 0..d {
        let mut next = vec![];
        for p in &out {
            for s in 0..k {
                let mut q = p.clone();
                q.push(s);
                next.push(q);
            }
        }
        out = next;
    }
    out
}

/// All sequences of length `0..=max_len` over `0..k`, shortest first (simplest counterexample first).
pub fn sequences_upto(k: usize, max_len: usize) -> Vec<Vec<usize>> {
    let mut out = vec![vec![]];
    let mut layer = vec![vec![]];
    for _ in 0..max_len {
        let mut next = vec![];
        for p in &layer {
            for s in 0..k {
                let mut q: Vec<usize> = p.clone();
                q.push(s);
                next.push(q);
            }
        }
        out.extend(next.iter().cloned());
        layer = next;
    }
    out
}

/// Cartesian product of index ranges.
pub fn product(dims: &[usize]) -> Vec<Vec<usize>> {
    let mut out = vec![vec![]];
    for &d in dims {
        let mut next = Vec::with_capacity(out.len() * d);
        for p in &out {
            for i in 0..d {
                let mut q = p.clone();
                q.push(i);
                next.push(q);
            }
        }
        out = next;
    }
    out
}

#[cfg(test)]
mod tests {
    use super::*;
    #[test]
    fn counts() {
        let mut n = 0u64;
        for l in 0..=3 {
            for sh in shards(3, l, 1) {
                for_each_with_prefix(&["a", "b", "c"], l, &sh, &mut |_, _| n += 1);
            }
        }
        assert_eq!(n, count_upto(3, 3));
        assert_eq!(sequences_upto(3, 3).len() as u64, count_upto(3, 3));
    }
}

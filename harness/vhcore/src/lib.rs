//! Shared machinery of the /verif harness: CLI, evidence files, known findings,
//! replay artefacts, a deterministic parallel map, bounded-exhaustive enumerators.
//!
//! Exit-code convention (DESIGN.md §7): 0 = property held on everything explored
//! (known findings printed as `KNOWN-FINDING:` lines), 1 = at least one
//! `VIOLATION property=<id> replay=<path>` line was printed, 2 = machinery failure.

use serde_json::{json, Map, Value};
use std::collections::{BTreeMap, BTreeSet};
use std::path::{Path, PathBuf};
use std::sync::atomic::{AtomicUsize, Ordering};
use std::sync::Mutex;
use std::time::Instant;

pub mod enumerate;
pub mod sched;

/// Root of the verification tree (evidence/, replays/, work/, known_findings.json). Overridable
/// with `VH_VERIF_ROOT` so that a scratch "lab" copy can run against a scratch worktree.
pub fn verif_root() -> PathBuf {
    PathBuf::from(std::env::var("VH_VERIF_ROOT").unwrap_or_else(|_| "/verif".to_string()))
}

/// Root of the repository under test (`VH_REPO_ROOT` overrides; must match the tree the harness
/// was compiled against).
pub fn repo_root() -> PathBuf {
    PathBuf::from(std::env::var("VH_REPO_ROOT").unwrap_or_else(|_| "/repo".to_string()))
}

#[derive(Clone, Copy, Debug, PartialEq, Eq)]
pub enum Tier {
    Quick,
    Thorough,
}

impl Tier {
    pub fn as_str(&self) -> &'static str {
        match self {
            Tier::Quick => "quick",
            Tier::Thorough => "thorough",
        }
    }
    pub fn pick<T>(&self, quick: T, thorough: T) -> T {
        match self {
            Tier::Quick => quick,
            Tier::Thorough => thorough,
        }
    }
}

#[derive(Clone, Debug)]
pub struct Args {
    /// sub-command, e.g. `check`, `replay`, or an internal worker command
    pub cmd: String,
    pub id: String,
    pub tier: Tier,
    pub seed: u64,
    pub jobs: usize,
    pub replay: Option<PathBuf>,
    pub rest: Vec<String>,
}

/// `<bin> check <ID> [--tier quick|thorough]` / `<bin> replay <ID> <path>` /
/// `<bin> <internal-cmd> args…`
pub fn parse_args() -> Args {
    let argv: Vec<String> = std::env::args().skip(1).collect();
    let mut a = Args {
        cmd: argv.first().cloned().unwrap_or_default(),
        id: String::new(),
        tier: match std::env::var("VERIF_TIER").ok().as_deref() {
            Some("thorough") => Tier::Thorough,
            _ => Tier::Quick,
        },
        seed: std::env::var("VERIF_SEED")
            .ok()
            .and_then(|s| s.parse().ok())
            .unwrap_or(0),
        jobs: std::env::var("VERIF_JOBS")
            .ok()
            .and_then(|s| s.parse().ok())
            .unwrap_or_else(|| {
                let n = std::thread::available_parallelism()
                    .map(|n| n.get())
                    .unwrap_or(4);
                // Be a good neighbour on an oversubscribed box (several checks developed in
                // parallel): results never depend on the job count, only wall time does.
                let load = std::fs::read_to_string("/proc/loadavg")
                    .ok()
                    .and_then(|s| s.split_whitespace().next().and_then(|x| x.parse::<f64>().ok()))
                    .unwrap_or(0.0);
                if load > 2.0 * n as f64 {
                    (n / 4).max(2)
                } else if load > n as f64 {
                    (n / 2).max(2)
                } else {
                    n
                }
            }),
        replay: None,
        rest: vec![],
    };
    let mut i = 1;
    while i < argv.len() {
        match argv[i].as_str() {
            "--tier" => {
                i += 1;
                a.tier = match argv.get(i).map(|s| s.as_str()) {
                    Some("thorough") => Tier::Thorough,
                    Some("quick") => Tier::Quick,
                    other => machinery_failure(&format!("bad --tier {other:?}")),
                };
            }
            "--jobs" => {
                i += 1;
                a.jobs = argv.get(i).and_then(|s| s.parse().ok()).unwrap_or(a.jobs);
            }
            s => {
                if a.id.is_empty() && (a.cmd == "check" || a.cmd == "replay") {
                    a.id = s.to_string();
                } else if a.cmd == "replay" && a.replay.is_none() {
                    a.replay = Some(PathBuf::from(s));
                } else {
                    a.rest.push(s.to_string());
                }
            }
        }
        i += 1;
    }
    a
}

pub fn machinery_failure(msg: &str) -> ! {
    eprintln!("MACHINERY-FAILURE: {msg}");
    println!("MACHINERY-FAILURE: {msg}");
    std::process::exit(2)
}

// ---------------------------------------------------------------------------------------------
// Known findings

#[derive(Clone, Debug)]
pub struct KnownFinding {
    pub property: String,
    /// class key produced by the check's own classifier (input predicate + failure shape)
    pub key: String,
    pub what: String,
}

pub fn load_known_findings(id: &str) -> Vec<KnownFinding> {
    let p = verif_root().join("known_findings.json");
    let Ok(txt) = std::fs::read_to_string(&p) else {
        return vec![];
    };
    let v: Value = match serde_json::from_str(&txt) {
        Ok(v) => v,
        Err(e) => machinery_failure(&format!("known_findings.json does not parse: {e}")),
    };
    let mut out = vec![];
    for f in v["findings"].as_array().cloned().unwrap_or_default() {
        if f["property"].as_str() == Some(id) {
            out.push(KnownFinding {
                property: id.to_string(),
                key: f["key"].as_str().unwrap_or("").to_string(),
                what: f["what"].as_str().unwrap_or("").to_string(),
            });
        }
    }
    out
}

// ---------------------------------------------------------------------------------------------
// Reporter: evidence + violations + replay files

pub struct Reporter {
    pub id: String,
    pub tier: Tier,
    pub seed: u64,
    pub level: &'static str,
    start: Instant,
    known: Vec<KnownFinding>,
    known_hits: BTreeMap<String, (usize, Value)>,
    violations: BTreeMap<String, (usize, PathBuf)>,
    pub coverage: Map<String, Value>,
    pub assumptions: Vec<String>,
    pub caps_hit: Vec<String>,
    samples: Vec<Value>,
    max_replays: usize,
}

impl Reporter {
    pub fn new(id: &str, tier: Tier, seed: u64, level: &'static str) -> Reporter {
        let dir = verif_root().join("replays").join(id);
        let _ = std::fs::remove_dir_all(&dir);
        Reporter {
            id: id.to_string(),
            tier,
            seed,
            level,
            start: Instant::now(),
            known: load_known_findings(id),
            known_hits: BTreeMap::new(),
            violations: BTreeMap::new(),
            coverage: Map::new(),
            assumptions: vec![],
            caps_hit: vec![],
            samples: vec![],
            max_replays: 25,
        }
    }

    pub fn from_args(a: &Args, level: &'static str) -> Reporter {
        Reporter::new(&a.id, a.tier, a.seed, level)
    }

    pub fn set(&mut self, key: &str, v: impl Into<Value>) {
        self.coverage.insert(key.to_string(), v.into());
    }

    pub fn add(&mut self, key: &str, n: u64) {
        let cur = self.coverage.get(key).and_then(|v| v.as_u64()).unwrap_or(0);
        self.coverage.insert(key.to_string(), json!(cur + n));
    }

    pub fn sample(&mut self, v: Value) {
        if self.samples.len() < 12 {
            self.samples.push(v);
        }
    }

    pub fn assume(&mut self, s: &str) {
        self.assumptions.push(s.to_string());
    }

    pub fn cap(&mut self, s: &str) {
        self.caps_hit.push(s.to_string());
    }

    pub fn is_known(&self, key: &str) -> bool {
        self.known_key_for(key).is_some()
    }

    /// The listed key a class key matches: exactly, or — for keys that embed a source location
    /// (`…/file.rs:LINE[:COL]`, panics) — up to the line/column numbers, so that an unrelated edit
    /// that shifts lines in that file does not turn a recorded finding into an alarm. The file, the
    /// failure kind and the input-class part of the key must still agree.
    fn known_key_for(&self, key: &str) -> Option<String> {
        if let Some(k) = self.known.iter().find(|k| k.key == key) {
            return Some(k.key.clone());
        }
        if !key.contains(".rs:") {
            return None;
        }
        let lf = strip_line_numbers(key);
        self.known.iter().find(|k| k.key.contains(".rs:") && strip_line_numbers(&k.key) == lf).map(|k| k.key.clone())
    }

    /// Report one violating case. `key` is the class key from the check's classifier; when it is
    /// listed in known_findings.json the case is counted as a known finding, otherwise a replay
    /// file is written and a VIOLATION line printed (once per distinct key, capped).
    pub fn violation(&mut self, key: &str, what: &str, replay: Value) {
        if let Some(listed) = self.known_key_for(key) {
            let e = self.known_hits.entry(listed).or_insert((0, replay.clone()));
            e.0 += 1;
            return;
        }
        if let Some(e) = self.violations.get_mut(key) {
            e.0 += 1;
            return;
        }
        let dir = verif_root().join("replays").join(&self.id);
        let _ = std::fs::create_dir_all(&dir);
        let n = self.violations.len();
        let path = dir.join(format!("{n}.json"));
        if n < self.max_replays {
            let body = json!({"property": self.id, "key": key, "what": what, "replay": replay});
            let _ = std::fs::write(&path, serde_json::to_string_pretty(&body).unwrap());
            println!("VIOLATION property={} replay={}", self.id, path.display());
            println!("  key={key} what={what}");
        }
        self.violations.insert(key.to_string(), (1, path));
    }

    pub fn violation_count(&self) -> usize {
        self.violations.len()
    }

    /// Write evidence and return the exit code.
    pub fn finish(mut self) -> i32 {
        for k in &self.known {
            if let Some((n, ex)) = self.known_hits.get(&k.key) {
                println!(
                    "KNOWN-FINDING: property={} {} [key={} cases={} e.g. {}]",
                    self.id,
                    k.what,
                    k.key,
                    n,
                    truncate(&ex.to_string(), 160)
                );
            }
        }
        let wall = self.start.elapsed().as_secs_f64();
        if !self.coverage.contains_key("samples") {
            self.coverage
                .insert("samples".into(), Value::Array(self.samples.clone()));
        }
        self.coverage
            .insert("caps_hit".into(), json!(self.caps_hit.clone()));
        self.coverage.insert(
            "known_findings_hit".into(),
            json!(self
                .known_hits
                .iter()
                .map(|(k, (n, _))| json!({"key": k, "cases": n}))
                .collect::<Vec<_>>()),
        );
        let ev = json!({
            "property_id": self.id,
            "tier": self.tier.as_str(),
            "seed": self.seed,
            "level": self.level,
            "coverage": Value::Object(self.coverage.clone()),
            "assumptions": self.assumptions,
            "wall_s": wall,
            "violations": self.violations.len(),
        });
        let dir = verif_root().join("evidence");
        let _ = std::fs::create_dir_all(&dir);
        let p = dir.join(format!("{}.json", self.id));
        if let Err(e) = std::fs::write(&p, serde_json::to_string_pretty(&ev).unwrap() + "\n") {
            machinery_failure(&format!("cannot write evidence {}: {e}", p.display()));
        }
        let ev_n = self
            .coverage
            .get("evaluations")
            .and_then(|v| v.as_u64())
            .unwrap_or(0);
        println!(
            "{} {} tier={} evaluations={} violations={} known_findings={} wall={:.1}s",
            if self.violations.is_empty() { "OK" } else { "FAIL" },
            self.id,
            self.tier.as_str(),
            ev_n,
            self.violations.len(),
            self.known_hits.len(),
            wall
        );
        if self.violations.is_empty() {
            0
        } else {
            1
        }
    }
}

pub fn truncate(s: &str, n: usize) -> String {
    if s.chars().count() <= n {
        s.to_string()
    } else {
        let t: String = s.chars().take(n).collect();
        format!("{t}…")
    }
}

// ---------------------------------------------------------------------------------------------
// Parallel helpers (deterministic result order)

/// Apply `f` to every index in `0..n` on `jobs` threads; results returned in index order.
pub fn par_map_idx<R: Send, F: Fn(usize) -> R + Sync>(n: usize, jobs: usize, f: F) -> Vec<R> {
    let next = AtomicUsize::new(0);
    let out: Mutex<Vec<(usize, R)>> = Mutex::new(Vec::with_capacity(n));
    std::thread::scope(|s| {
        for _ in 0..jobs.max(1).min(n.max(1)) {
            s.spawn(|| {
                let mut local = vec![];
                loop {
                    let i = next.fetch_add(1, Ordering::Relaxed);
                    if i >= n {
                        break;
                    }
                    local.push((i, f(i)));
                }
                out.lock().unwrap().extend(local);
            });
        }
    });
    let mut v = out.into_inner().unwrap();
    v.sort_by_key(|(i, _)| *i);
    v.into_iter().map(|(_, r)| r).collect()
}

pub fn par_map<T: Sync, R: Send, F: Fn(&T) -> R + Sync>(items: &[T], jobs: usize, f: F) -> Vec<R> {
    par_map_idx(items.len(), jobs, |i| f(&items[i]))
}

/// Run `f` under catch_unwind with the panic message captured (the default hook is silenced by
/// `silence_panics`).
pub fn catch<R>(f: impl FnOnce() -> R + std::panic::UnwindSafe) -> Result<R, String> {
    std::panic::catch_unwind(f).map_err(|e| {
        if let Some(s) = e.downcast_ref::<String>() {
            s.clone()
        } else if let Some(s) = e.downcast_ref::<&str>() {
            s.to_string()
        } else {
            "<non-string panic payload>".to_string()
        }
    })
}

thread_local! {
    pub static LAST_PANIC_LOC: std::cell::RefCell<Option<String>> = const { std::cell::RefCell::new(None) };
}

/// Install a panic hook that records `file:line` of the panic in a thread-local instead of
/// printing (bounded-exhaustive runs can hit the same panic millions of times).
pub fn silence_panics() {
    std::panic::set_hook(Box::new(|info| {
        let loc = info
            .location()
            .map(|l| format!("{}:{}", l.file(), l.line()))
            .unwrap_or_default();
        LAST_PANIC_LOC.with(|c| *c.borrow_mut() = Some(loc));
    }));
}

/// `…/file.rs:123:45` → `…/file.rs` everywhere in `s`.
pub fn strip_line_numbers(s: &str) -> String {
    let mut out = String::with_capacity(s.len());
    let mut rest = s;
    while let Some(i) = rest.find(".rs:") {
        out.push_str(&rest[..i + 3]);
        let mut tail = &rest[i + 3..];
        // up to two `:digits` groups
        for _ in 0..2 {
            if let Some(t) = tail.strip_prefix(':') {
                let n = t.bytes().take_while(|b| b.is_ascii_digit()).count();
                if n > 0 {
                    tail = &t[n..];
                    continue;
                }
            }
            break;
        }
        rest = tail;
    }
    out.push_str(rest);
    out
}

pub fn take_panic_loc() -> String {
    LAST_PANIC_LOC.with(|c| c.borrow_mut().take().unwrap_or_default())
}

/// Distinct-set counter with a cap on memory.
#[derive(Default)]
pub struct Distinct {
    set: BTreeSet<u64>,
}

impl Distinct {
    pub fn add<T: std::hash::Hash>(&mut self, t: &T) {
        use std::hash::Hasher;
        let mut h = std::collections::hash_map::DefaultHasher::new();
        t.hash(&mut h);
        self.set.insert(h.finish());
    }
    pub fn merge(&mut self, o: Distinct) {
        self.set.extend(o.set);
    }
    pub fn len(&self) -> usize {
        self.set.len()
    }
    pub fn is_empty(&self) -> bool {
        self.set.is_empty()
    }
}

pub fn work_dir(id: &str) -> PathBuf {
    let d = verif_root().join("work").join(id);
    let _ = std::fs::remove_dir_all(&d);
    std::fs::create_dir_all(&d).unwrap_or_else(|e| machinery_failure(&format!("work dir: {e}")));
    d
}

/// All `.sw` files under /repo (sorted), excluding target/ directories.
pub fn corpus_sw_files() -> Vec<PathBuf> {
    fn walk(d: &Path, out: &mut Vec<PathBuf>) {
        let Ok(rd) = std::fs::read_dir(d) else { return };
        let mut es: Vec<_> = rd.filter_map(|e| e.ok()).collect();
        es.sort_by_key(|e| e.file_name());
        for e in es {
            let p = e.path();
            let name = e.file_name();
            let name = name.to_string_lossy();
            let Ok(ft) = e.file_type() else { continue };
            if ft.is_dir() {
                if name == "target" || name == ".git" || name == "node_modules" {
                    continue;
                }
                walk(&p, out);
            } else if ft.is_file() && name.ends_with(".sw") {
                out.push(p);
            }
        }
    }
    let mut out = vec![];
    walk(&repo_root(), &mut out);
    out
}

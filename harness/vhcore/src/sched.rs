//! Stateless DFS over choice sequences with deviation (preemption / fault) bounding.
//!
//! The explorer knows nothing about threads or processes. An *execution* is produced by a
//! `run(prefix)` callback: it must follow the choice indices in `prefix` at its first
//! `prefix.len()` decision points (an out-of-range index is a machinery error) and take
//! alternative 0 — the canonical default: keep running the current thread, no fault — at every
//! later point. It returns the list of decision points it went through, each with *all*
//! alternatives that were available there and their deviation cost. The explorer then schedules
//! every alternative whose accumulated cost stays within the bounds (iterative context bounding,
//! Musuvathi & Qadeer 2007), so every execution within the bound is run exactly once.

use std::sync::{Condvar, Mutex};

#[derive(Clone, Debug)]
pub struct Alt {
    pub label: String,
    pub preempt: u32,
    pub fault: u32,
}

#[derive(Clone, Debug)]
pub struct Point {
    pub alts: Vec<Alt>,
    pub chosen: usize,
}

#[derive(Clone, Copy, Debug)]
pub struct Bounds {
    pub preempt: u32,
    pub fault: u32,
}

/// Number of executions that had to be re-run because they did not follow their prefix.
pub static DIVERGENCE_RETRIES: std::sync::atomic::AtomicU64 = std::sync::atomic::AtomicU64::new(0);

#[derive(Default, Debug, Clone)]
pub struct Stats {
    pub executions: u64,
    pub points: u64,
    pub max_depth: usize,
    pub capped: bool,
}

struct Shared {
    stack: Vec<Vec<usize>>,
    active: usize,
    done: bool,
}

/// Explore all executions within `bounds`. `run` is called concurrently from `jobs` threads and
/// must be self-contained (fresh state per call). `visit(choices, points, result)` is called
/// serially (under a lock) for every execution. `max_exec` caps the number of executions (the cap
/// being hit is reported in `Stats::capped`; never silently).
pub fn explore<R: Send>(
    bounds: Bounds,
    jobs: usize,
    max_exec: u64,
    run: &(dyn Fn(&[usize]) -> (Vec<Point>, R) + Sync),
    visit: &mut (dyn FnMut(&[usize], &[Point], R) + Send),
) -> Stats {
    let shared = Mutex::new(Shared {
        stack: vec![vec![]],
        active: 0,
        done: false,
    });
    let cv = Condvar::new();
    let stats = Mutex::new(Stats::default());
    let visit = Mutex::new(visit);
    std::thread::scope(|s| {
        for _ in 0..jobs.max(1) {
            s.spawn(|| loop {
                let prefix = {
                    let mut g = shared.lock().unwrap();
                    loop {
                        if g.done {
                            return;
                        }
                        if let Some(p) = g.stack.pop() {
                            g.active += 1;
                            break p;
                        }
                        if g.active == 0 {
                            g.done = true;
                            cv.notify_all();
                            return;
                        }
                        g = cv.wait(g).unwrap();
                    }
                };
                // A prefix must be reproducible. An execution that cannot follow it is re-run (the
                // subject may consult the outside world, e.g. a `ps` liveness probe); a second
                // divergence on the same prefix, or more than a handful in one exploration, is a
                // hard machinery error. Retries are counted and reported (DIVERGENCE_RETRIES).
                let follows = |points: &Vec<Point>| -> Result<(), String> {
                    if points.len() < prefix.len() {
                        return Err(format!("execution has {} points but prefix {:?} was requested", points.len(), prefix));
                    }
                    for (i, c) in prefix.iter().enumerate() {
                        if points[i].chosen != *c || *c >= points[i].alts.len() {
                            return Err(format!("at point {i}: prefix {:?}, got chosen={} of {} alts", prefix, points[i].chosen, points[i].alts.len()));
                        }
                    }
                    Ok(())
                };
                let (mut points, mut res) = run(&prefix);
                if let Err(first) = follows(&points) {
                    let n = DIVERGENCE_RETRIES.fetch_add(1, std::sync::atomic::Ordering::SeqCst);
                    eprintln!("[explore] divergence ({first}); re-running the prefix once");
                    if n >= 5 {
                        crate::machinery_failure(&format!("scheduler divergence (6th in this exploration): {first}"));
                    }
                    let (p2, r2) = run(&prefix);
                    if let Err(second) = follows(&p2) {
                        crate::machinery_failure(&format!("scheduler divergence, twice on the same prefix: {first} / {second}"));
                    }
                    points = p2;
                    res = r2;
                }
                let choices: Vec<usize> = points.iter().map(|p| p.chosen).collect();
                // children
                let mut children = vec![];
                let mut pre = 0u32;
                let mut fl = 0u32;
                for (i, p) in points.iter().enumerate() {
                    if i >= prefix.len() {
                        for (ai, a) in p.alts.iter().enumerate() {
                            if ai == p.chosen {
                                continue;
                            }
                            if pre + a.preempt <= bounds.preempt && fl + a.fault <= bounds.fault {
                                let mut c = choices[..i].to_vec();
                                c.push(ai);
                                children.push(c);
                            }
                        }
                    }
                    pre += p.alts[p.chosen].preempt;
                    fl += p.alts[p.chosen].fault;
                }
                let capped = {
                    let mut st = stats.lock().unwrap();
                    st.executions += 1;
                    st.points += points.len() as u64;
                    st.max_depth = st.max_depth.max(points.len());
                    if st.executions >= max_exec {
                        st.capped = true;
                    }
                    if st.executions % 250 == 0 {
                        eprintln!("[explore] {} executions, {} steps", st.executions, st.points);
                    }
                    st.capped
                };
                {
                    let mut v = visit.lock().unwrap();
                    (v)(&choices, &points, res);
                }
                let mut g = shared.lock().unwrap();
                g.active -= 1;
                if capped {
                    g.done = true;
                    g.stack.clear();
                } else {
                    // reverse so that the smallest deviation is explored first by LIFO
                    for c in children.into_iter().rev() {
                        g.stack.push(c);
                    }
                }
                cv.notify_all();
            });
        }
    });
    stats.into_inner().unwrap()
}

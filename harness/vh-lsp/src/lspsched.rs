//! Controlled scheduler for the real language server (E-sched, DESIGN.md §3.4): the task thread
//! (handler futures, polled cooperatively) and the server's own compilation thread are
//! serialised at the cfg-guarded H5 points; every decision is taken by the caller-supplied choice
//! prefix (default: keep running the current thread). One instance per process.

use serde::{Deserialize, Serialize};
use std::collections::HashMap;
use std::future::Future;
use std::pin::Pin;
use std::sync::{Arc, Condvar, Mutex, OnceLock};
use std::task::{Context, Poll, Wake, Waker};
use std::thread::ThreadId;
use sway_lsp::server_state::ServerState;

pub type HandlerFut = Pin<Box<dyn Future<Output = ()> + Send>>;
pub type EventFactory = Box<dyn FnMut(usize, Arc<ServerState>) -> HandlerFut + Send>;

#[derive(Clone, Debug, PartialEq)]
pub enum Status {
    NotStarted,
    Running,
    AtPoint { label: String, version: Option<i32> },
    ExecChoice { options: Vec<String> },
    Idle,
    Finished,
}

#[derive(Clone, Debug, Serialize, Deserialize)]
pub struct TraceEv {
    pub seq: usize,
    pub tid: usize,
    pub kind: String, // "arrive" | "grant"
    pub label: String,
    pub version: Option<i32>,
    pub flags: String,
}

struct CtlState {
    active: bool,
    stop: bool,
    threads: HashMap<ThreadId, usize>,
    status: [Status; 2],
    grant: [Option<usize>; 2],
    trace: Vec<TraceEv>,
    ready: Vec<bool>,
    last_label: Vec<String>,
    alive: Vec<bool>,
    current_handler: Option<usize>,
    events_issued: usize,
    events_total: usize,
    quiescent_epoch: u64,
    /// a handler was woken while the task thread was parked at an executor-level choice: its
    /// option list is stale and must be recomputed
    recompute: bool,
}

struct Ctl {
    m: Mutex<CtlState>,
    cv: Condvar,
    state: OnceLock<Arc<ServerState>>,
}

static CTL: OnceLock<Ctl> = OnceLock::new();

fn ctl() -> &'static Ctl {
    CTL.get_or_init(|| Ctl {
        m: Mutex::new(CtlState {
            active: false,
            stop: false,
            threads: HashMap::new(),
            status: [Status::NotStarted, Status::NotStarted],
            grant: [None, None],
            trace: vec![],
            ready: vec![],
            last_label: vec![],
            alive: vec![],
            current_handler: None,
            events_issued: 0,
            events_total: 0,
            quiescent_epoch: 0,
            recompute: false,
        }),
        cv: Condvar::new(),
        state: OnceLock::new(),
    })
}

pub const T: usize = 0;
pub const W: usize = 1;

fn flags_now() -> String {
    match ctl().state.get() {
        Some(s) => {
            let (c, r, l) = s.verif_flags();
            format!("compiling={c} retrigger={r} last={l} queued={}", s.verif_pending_requests())
        }
        None => String::new(),
    }
}

fn point(label: &'static str, version: Option<i32>) {
    let c = ctl();
    let me = std::thread::current().id();
    let mut g = c.m.lock().unwrap();
    if !g.active {
        return;
    }
    let tid = match g.threads.get(&me) {
        Some(t) => *t,
        None => {
            if label.starts_with("W:") && !g.threads.values().any(|t| *t == W) {
                g.threads.insert(me, W);
                W
            } else {
                return;
            }
        }
    };
    if tid == T {
        if let Some(h) = g.current_handler {
            g.last_label[h] = label.to_string();
        }
    }
    let seq = g.trace.len();
    g.trace.push(TraceEv { seq, tid, kind: "arrive".into(), label: label.to_string(), version, flags: String::new() });
    g.status[tid] = Status::AtPoint { label: label.to_string(), version };
    c.cv.notify_all();
    loop {
        if !g.active {
            return;
        }
        if g.grant[tid].take().is_some() {
            break;
        }
        g = c.cv.wait(g).unwrap();
    }
    g.status[tid] = Status::Running;
    drop(g);
    let fl = flags_now();
    let mut g = c.m.lock().unwrap();
    let seq = g.trace.len();
    g.trace.push(TraceEv { seq, tid, kind: "grant".into(), label: label.to_string(), version, flags: fl });
}

struct HandlerWaker(usize);
impl Wake for HandlerWaker {
    fn wake(self: Arc<Self>) {
        let c = ctl();
        let mut g = c.m.lock().unwrap();
        if self.0 < g.ready.len() {
            g.ready[self.0] = true;
        }
        // Only a wake of a handler that is still alive makes the task thread runnable (a finished
        // future's waker may still be invoked late; it must not leave T marked Running forever).
        let alive = g.alive.get(self.0).copied().unwrap_or(false);
        if alive && g.status[T] == Status::Idle {
            g.status[T] = Status::Running;
        } else if alive && matches!(g.status[T], Status::ExecChoice { .. }) {
            // parked at an executor-level choice computed before this wake: recompute it
            g.recompute = true;
            g.status[T] = Status::Running;
        }
        c.cv.notify_all();
    }
}

fn task_thread(state: Arc<ServerState>, labels: Vec<String>, mut factory: EventFactory, only_at_quiescence: bool) {
    let c = ctl();
    {
        let mut g = c.m.lock().unwrap();
        g.threads.insert(std::thread::current().id(), T);
        g.status[T] = Status::Running;
        g.events_total = labels.len();
    }
    let rt = tokio::runtime::Builder::new_multi_thread().worker_threads(1).enable_all().build().unwrap();
    let _enter = rt.enter();
    let mut handlers: Vec<Option<HandlerFut>> = vec![];
    let mut next_event = 0usize;
    let mut seen_epoch = 0u64;
    loop {
        let options: Vec<(String, usize, bool)> = {
            let g = c.m.lock().unwrap();
            if g.stop {
                break;
            }
            let mut o = vec![];
            for (i, h) in handlers.iter().enumerate() {
                if h.is_some() && g.ready[i] {
                    o.push((format!("T:poll#{i}"), i, false));
                }
            }
            if next_event < labels.len() {
                let allowed = if only_at_quiescence {
                    // only when the scheduler has declared quiescence since the last issue
                    next_event == 0 || g.quiescent_epoch > seen_epoch
                } else {
                    true
                };
                if allowed && (o.is_empty() || !only_at_quiescence) {
                    o.push((format!("T:issue#{next_event}:{}", labels[next_event]), next_event, true));
                }
            }
            o
        };
        if options.is_empty() {
            let mut g = c.m.lock().unwrap();
            if handlers.iter().all(|h| h.is_none()) && next_event >= labels.len() {
                g.status[T] = Status::Finished;
                c.cv.notify_all();
                break;
            }
            let runnable = |g: &CtlState, handlers: &Vec<Option<HandlerFut>>| {
                handlers.iter().enumerate().any(|(i, h)| h.is_some() && g.ready[i])
                    || (only_at_quiescence && next_event < labels.len() && g.quiescent_epoch > seen_epoch)
            };
            if !runnable(&g, &handlers) {
                g.status[T] = Status::Idle;
                c.cv.notify_all();
                while !g.stop && !runnable(&g, &handlers) {
                    g = c.cv.wait(g).unwrap();
                }
                if g.stop {
                    break;
                }
                g.status[T] = Status::Running;
                // A single `notify_waiters()` wakes several handlers one after the other: do not
                // look at the ready set before the worker has finished its step (is parked at its
                // next point), otherwise the set of poll options would depend on timing.
                while !g.stop && matches!(g.status[W], Status::Running) {
                    g = c.cv.wait(g).unwrap();
                }
                if g.stop {
                    break;
                }
            }
            continue;
        }
        let chosen = {
            let mut g = c.m.lock().unwrap();
            if !g.active {
                break;
            }
            g.status[T] = Status::ExecChoice { options: options.iter().map(|o| o.0.clone()).collect() };
            c.cv.notify_all();
            let mut stale = false;
            let k = loop {
                if !g.active || g.stop {
                    break None;
                }
                if g.recompute {
                    g.recompute = false;
                    stale = true;
                    break None;
                }
                if let Some(k) = g.grant[T].take() {
                    break Some(k);
                }
                g = c.cv.wait(g).unwrap();
            };
            g.status[T] = Status::Running;
            if stale {
                // wait until the worker has finished the step that woke us, then start over
                while !g.stop && matches!(g.status[W], Status::Running) {
                    g = c.cv.wait(g).unwrap();
                }
                continue;
            }
            match k {
                Some(k) => {
                    let seq = g.trace.len();
                    g.trace.push(TraceEv { seq, tid: T, kind: "grant".into(), label: options[k].0.clone(), version: None, flags: String::new() });
                    k
                }
                None => break,
            }
        };
        let (_, idx, is_issue) = options[chosen].clone();
        let h = if is_issue {
            let fut = factory(idx, state.clone());
            next_event += 1;
            handlers.push(Some(fut));
            let mut g = c.m.lock().unwrap();
            seen_epoch = g.quiescent_epoch;
            g.events_issued = next_event;
            g.ready.push(true);
            g.last_label.push(String::new());
            g.alive.push(true);
            handlers.len() - 1
        } else {
            idx
        };
        loop {
            {
                let mut g = c.m.lock().unwrap();
                g.ready[h] = false;
                g.current_handler = Some(h);
                g.last_label[h].clear();
            }
            let waker: Waker = Arc::new(HandlerWaker(h)).into();
            let mut cx = Context::from_waker(&waker);
            let r = handlers[h].as_mut().unwrap().as_mut().poll(&mut cx);
            let mut g = c.m.lock().unwrap();
            g.current_handler = None;
            match r {
                Poll::Ready(()) => {
                    handlers[h] = None;
                    g.alive[h] = false;
                    break;
                }
                Poll::Pending => {
                    if g.last_label[h] == "T:wp_wait" {
                        break;
                    }
                    while !g.ready[h] && !g.stop {
                        g = c.cv.wait(g).unwrap();
                    }
                    if g.stop {
                        return;
                    }
                }
            }
        }
    }
    let mut g = c.m.lock().unwrap();
    g.status[T] = Status::Finished;
    c.cv.notify_all();
}

#[derive(Serialize, Deserialize, Debug, Default, Clone)]
pub struct RunOut {
    pub points: Vec<(Vec<(String, u32)>, usize)>,
    pub trace: Vec<TraceEv>,
    pub pending_handlers: Vec<String>,
    pub terminal: String,
    pub error: Option<String>,
}

pub struct RunCfg {
    pub labels: Vec<String>,
    pub prefix: Vec<usize>,
    pub issue_only_at_quiescence: bool,
    /// When set, decisions are taken by LABEL: at decision point i the alternative whose label
    /// equals `follow[i]` is chosen (used to replay model traces on the real server); a label that
    /// is not among the enabled alternatives is a divergence.
    pub follow: Option<Vec<String>>,
}

/// Run one execution. `on_quiescent(events issued so far, state)` is called on the scheduler
/// thread whenever no controlled thread can move (worker parked on an empty queue, task thread has
/// nothing runnable) — after each event in `issue_only_at_quiescence` mode, and once at the end.
/// Leaves the server running; call `teardown` afterwards (and exit the process soon).
pub fn run(
    cfg: RunCfg,
    state: Arc<ServerState>,
    factory: EventFactory,
    on_quiescent: &mut dyn FnMut(usize, &Arc<ServerState>),
) -> RunOut {
    let c = ctl();
    let _ = c.state.set(state.clone());
    let labels = cfg.labels.clone();
    let only = cfg.issue_only_at_quiescence;
    let st2 = state.clone();
    std::thread::spawn(move || task_thread(st2, labels, factory, only));
    let mut points: Vec<(Vec<(String, u32)>, usize)> = vec![];
    let mut running: Option<usize> = None;
    let mut out = RunOut::default();
    loop {
        // watchdog per step (not per execution): a step is milliseconds of work, but the box may be
        // heavily oversubscribed
        let deadline = std::time::Instant::now() + std::time::Duration::from_secs(600);
        let mut g = c.m.lock().unwrap();
        loop {
            let busy = |s: &Status| matches!(s, Status::Running | Status::NotStarted);
            if !busy(&g.status[T]) && !busy(&g.status[W]) {
                break;
            }
            let (ng, to) = c.cv.wait_timeout(g, std::time::Duration::from_millis(500)).unwrap();
            g = ng;
            if to.timed_out() && std::time::Instant::now() > deadline {
                out.error = Some(format!("watchdog: status={:?}", g.status));
                return out;
            }
        }
        let queued = state.verif_pending_requests();
        let mut per_thread: [Vec<String>; 2] = [vec![], vec![]];
        for tid in [T, W] {
            match &g.status[tid] {
                Status::AtPoint { label, version } => {
                    let enabled = if tid == W && label == "W:recv" { queued > 0 } else { true };
                    if enabled {
                        per_thread[tid].push(match version {
                            Some(v) => format!("{label}(v{v})"),
                            None => label.clone(),
                        });
                    }
                }
                Status::ExecChoice { options } => per_thread[tid].extend(options.iter().cloned()),
                _ => {}
            }
        }
        if per_thread[T].is_empty() && per_thread[W].is_empty() {
            let issued = g.events_issued;
            let more = only && g.events_issued < g.events_total && g.alive.iter().all(|a| !*a || true);
            let term = format!("T={:?} W={:?} queued={queued}", g.status[T], g.status[W]);
            drop(g);
            on_quiescent(issued, &state);
            let mut g = c.m.lock().unwrap();
            if more && g.status[T] == Status::Idle {
                g.quiescent_epoch += 1;
                g.status[T] = Status::Running;
                c.cv.notify_all();
                continue;
            }
            out.terminal = term;
            break;
        }
        let first = match running {
            Some(r) if !per_thread[r].is_empty() => r,
            _ => {
                if !per_thread[T].is_empty() {
                    T
                } else {
                    W
                }
            }
        };
        let running_enabled = running.map(|r| !per_thread[r].is_empty()).unwrap_or(false);
        let mut alts: Vec<(String, u32, usize, usize)> = vec![];
        for (k, l) in per_thread[first].iter().enumerate() {
            alts.push((l.clone(), 0, first, k));
        }
        let other = 1 - first;
        for (k, l) in per_thread[other].iter().enumerate() {
            alts.push((l.clone(), if running_enabled { 1 } else { 0 }, other, k));
        }
        let idx = points.len();
        let chosen = match &cfg.follow {
            Some(f) if idx < f.len() => match alts.iter().position(|a| a.0 == f[idx]) {
                Some(k) => k,
                None => {
                    out.points = points;
                    out.error = Some(format!("cannot follow: step {idx} wants `{}` but enabled are {:?}", f[idx], alts.iter().map(|a| a.0.clone()).collect::<Vec<_>>()));
                    return out;
                }
            },
            _ => {
                if idx < cfg.prefix.len() {
                    cfg.prefix[idx]
                } else {
                    0
                }
            }
        };
        if chosen >= alts.len() {
            out.error = Some(format!("divergence at point {idx}: choice {chosen} of {} alts {:?}", alts.len(), alts));
            return out;
        }
        points.push((alts.iter().map(|a| (a.0.clone(), a.1)).collect(), chosen));
        let (_, _, tid, k) = alts[chosen].clone();
        g.grant[tid] = Some(k);
        g.status[tid] = Status::Running;
        running = Some(tid);
        c.cv.notify_all();
        drop(g);
        if points.len() > 20000 {
            out.error = Some("watchdog: too many points".into());
            return out;
        }
    }
    let g = c.m.lock().unwrap();
    out.points = points;
    out.trace = g.trace.clone();
    out.pending_handlers = g
        .alive
        .iter()
        .enumerate()
        .filter(|(_, a)| **a)
        .map(|(i, _)| format!("handler#{i}@{}", g.last_label[i]))
        .collect();
    out
}

/// Install the process-wide hook callbacks and activate them. Call before creating the server.
pub fn install() {
    sway_lsp::verif::set_point(Box::new(|l, v| point(l, v)));
    sway_core::verif::set_abort_check_point(Box::new(|l, _| point(l, None)));
    ctl().m.lock().unwrap().active = true;
}

/// Hooks off, everyone released, server told to stop. The process should exit soon afterwards.
pub fn teardown(state: &Arc<ServerState>) {
    let c = ctl();
    {
        let mut g = c.m.lock().unwrap();
        g.active = false;
        g.stop = true;
        c.cv.notify_all();
    }
    let _ = state.shutdown_server();
}

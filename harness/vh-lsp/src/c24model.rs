//! E-model for C24 (DESIGN.md Appendix A; tracks the protocol as repaired by the C24 `fix:` commits —
//! the model of the protocol as originally found is kept in /verif/seeded/c24-original-protocol/): an explicit-state model of the language server's
//! flag / channel / notify protocol whose steps carry the SAME labels as the H5 hook points, so
//! that any model trace can be replayed step by step on the real server (`lspsched` follow mode)
//! and compared. The model is explored exhaustively WITHOUT a preemption bound; it never produces
//! a verdict by itself — a model counterexample counts only if its replay on the real server
//! shows the same violation, and a trace the server cannot follow is a MODEL-DIVERGENCE (the
//! model is then ignored and said so in the evidence).

use std::collections::{BTreeSet, HashMap, VecDeque};

#[derive(Clone, Copy, Debug, PartialEq, Eq, Hash, PartialOrd, Ord)]
pub enum Ev {
    Open,
    Change,
    Save,
    Wait,
}

#[derive(Clone, Copy, Debug, PartialEq, Eq, Hash, PartialOrd, Ord)]
pub enum Last {
    Uninit,
    Ok,
    Failed,
}

/// Program counter of a handler = the label it is parked at (before executing it).
#[derive(Clone, Copy, Debug, PartialEq, Eq, Hash, PartialOrd, Ord)]
pub enum Pc {
    LoadCompiling,
    SetRetrigger,
    IsFull,
    Drain,
    Send,
    OpenSetCompiling,
    WpCheckFlags,
    WpCheckEmpty,
    WpWait,
    /// blocked on the notification (registered waiter)
    Waiting,
    /// woken, needs a poll by the executor; continues at WpWoken
    Woken,
    WpWoken,
    Done,
}

#[derive(Clone, Debug, PartialEq, Eq, Hash, PartialOrd, Ord)]
pub struct Handler {
    pub ev: Ev,
    pub version: Option<i32>,
    pub pc: Pc,
    /// `wait_for_parsing` creates and enables its `Notified` future at the top of every loop
    /// iteration, i.e. in the step that ARRIVES at `T:wp_check_flags`
    pub registered: bool,
    /// a `notify_waiters()` happened since the registration
    pub notified: bool,
}

#[derive(Clone, Copy, Debug, PartialEq, Eq, Hash, PartialOrd, Ord)]
pub enum Wpc {
    Recv,
    GotRequest,
    StartClearRetrigger,
    SetCompiling,
    AbortCheck(u8),
    FinishSuccess,
    FinishFailed,
    ClearCompiling,
    ClearRetrigger,
    CheckEmpty,
    Notify,
}

#[derive(Clone, Debug, PartialEq, Eq, Hash, PartialOrd, Ord)]
pub struct State {
    pub is_compiling: bool,
    pub retrigger: bool,
    /// channel of capacity 1: the queued request's version tag
    pub chan: Option<Option<i32>>,
    pub last: Last,
    pub handlers: Vec<Handler>,
    /// handler the task thread is in the middle of (must continue it), if any
    pub current: Option<usize>,
    pub next_event: usize,
    pub next_version: i32,
    pub wpc: Wpc,
    pub wreq: Option<i32>,
    /// document version written so far / version the running compile started from / last completed
    pub doc_version: i32,
    pub compile_version: i32,
    pub completed_version: Option<i32>,
    pub requests_sent: u8,
    /// retrigger polls the running compilation will make
    pub checks_this_compile: u8,
    /// which thread moved last (0 = task, 1 = worker), for label ordering only
    pub running: u8,
}

pub struct Model {
    pub script: Vec<Ev>,
    /// number of retrigger polls inside one complete compilation (calibrated on the real server)
    pub abort_checks: u8,
    /// number of retrigger polls of a compilation whose text equals the text of the last
    /// successfully completed one (the compiler re-uses its caches; calibrated as well)
    pub abort_checks_cached: u8,
}

fn ev_name(e: Ev) -> &'static str {
    match e {
        Ev::Open => "Open",
        Ev::Change => "Change",
        Ev::Save => "Save",
        Ev::Wait => "Wait",
    }
}

impl Model {
    pub fn initial(&self) -> State {
        State {
            is_compiling: false,
            retrigger: false,
            chan: None,
            last: Last::Uninit,
            handlers: vec![],
            current: None,
            next_event: 0,
            next_version: 1,
            wpc: Wpc::Recv,
            wreq: None,
            doc_version: 1,
            compile_version: 0,
            completed_version: None,
            requests_sent: 0,
            checks_this_compile: 0,
            running: 0,
        }
    }

    fn pc_label(h: &Handler) -> String {
        match h.pc {
            Pc::LoadCompiling => match h.version {
                Some(v) => format!("T:load_compiling(v{v})"),
                None => "T:load_compiling".into(),
            },
            Pc::SetRetrigger => "T:set_retrigger".into(),
            Pc::IsFull => "T:is_full".into(),
            Pc::Drain => "T:drain".into(),
            Pc::Send => "T:send".into(),
            Pc::OpenSetCompiling => "T:open_set_compiling".into(),
            Pc::WpCheckFlags => "T:wp_check_flags".into(),
            Pc::WpCheckEmpty => "T:wp_check_empty".into(),
            Pc::WpWait => "T:wp_wait".into(),
            Pc::WpWoken => "T:wp_woken".into(),
            Pc::Waiting | Pc::Woken | Pc::Done => unreachable!(),
        }
    }

    fn w_label(s: &State) -> String {
        let v = |l: &str| match s.wreq {
            Some(v) => format!("{l}(v{v})"),
            None => l.to_string(),
        };
        match s.wpc {
            Wpc::Recv => "W:recv".into(),
            Wpc::GotRequest => v("W:got_request"),
            Wpc::StartClearRetrigger => "W:start_clear_retrigger".into(),
            Wpc::SetCompiling => "W:set_compiling".into(),
            Wpc::AbortCheck(_) => "W:abort_check".into(),
            Wpc::FinishSuccess => v("W:finish_success"),
            Wpc::FinishFailed => v("W:finish_failed"),
            Wpc::ClearCompiling => "W:clear_compiling".into(),
            Wpc::ClearRetrigger => "W:clear_retrigger".into(),
            Wpc::CheckEmpty => "W:check_empty".into(),
            Wpc::Notify => "W:notify".into(),
        }
    }

    /// First program point of the handler of event `e` (the code before it has no hook point).
    fn first_pc(e: Ev) -> Pc {
        match e {
            // didOpen marks the compilation as running BEFORE it sends the request
            Ev::Open => Pc::OpenSetCompiling,
            Ev::Change | Ev::Save => Pc::LoadCompiling,
            Ev::Wait => Pc::WpCheckFlags,
        }
    }

    /// Enabled steps (label, successor), task-thread steps listed before/after worker steps in the
    /// same canonical order the real scheduler uses (thread that moved last first).
    pub fn steps(&self, s: &State) -> Vec<(String, State)> {
        let mut t: Vec<(String, State)> = vec![];
        match s.current {
            Some(h) => {
                let (label, n) = self.handler_step(s, h);
                t.push((label, n));
            }
            None => {
                for (i, h) in s.handlers.iter().enumerate() {
                    if h.pc == Pc::Woken {
                        let mut n = s.clone();
                        n.handlers[i].pc = Pc::WpWoken;
                        n.current = Some(i);
                        n.running = 0;
                        t.push((format!("T:poll#{i}"), n));
                    }
                }
                if s.next_event < self.script.len() {
                    let e = self.script[s.next_event];
                    let mut n = s.clone();
                    let version = if e == Ev::Change {
                        n.next_version += 1;
                        n.doc_version = n.next_version; // the text is written before the first hook point
                        Some(n.next_version)
                    } else {
                        None
                    };
                    let pc = Self::first_pc(e);
                    n.handlers.push(Handler { ev: e, version, pc, registered: pc == Pc::WpCheckFlags, notified: false });
                    n.current = Some(n.handlers.len() - 1);
                    n.next_event += 1;
                    n.running = 0;
                    t.push((format!("T:issue#{}:{}", s.next_event, ev_name(e)), n));
                }
            }
        }
        let mut w: Vec<(String, State)> = vec![];
        if !(s.wpc == Wpc::Recv && s.chan.is_none()) {
            w.push((Self::w_label(s), self.worker_step(s)));
        }
        if s.running == 1 && !w.is_empty() {
            w.extend(t);
            w
        } else {
            t.extend(w);
            t
        }
    }

    fn handler_step(&self, s: &State, h: usize) -> (String, State) {
        let label = Self::pc_label(&s.handlers[h]);
        let mut n = s.clone();
        n.running = 0;
        let ev = s.handlers[h].ev;
        let next = match s.handlers[h].pc {
            Pc::LoadCompiling => {
                if s.is_compiling {
                    Pc::SetRetrigger
                } else {
                    Pc::IsFull
                }
            }
            Pc::SetRetrigger => {
                n.retrigger = true;
                Pc::IsFull
            }
            Pc::IsFull => {
                if s.chan.is_some() {
                    Pc::Drain
                } else {
                    Pc::Send
                }
            }
            Pc::Drain => {
                n.chan = None;
                Pc::Send
            }
            Pc::Send => {
                // `send` on a full channel would block; it cannot be full here unless the worker
                // refilled it, which it never does
                n.chan = Some(s.handlers[h].version);
                n.requests_sent = n.requests_sent.saturating_add(1);
                match ev {
                    Ev::Open | Ev::Save => Pc::WpCheckFlags,
                    _ => Pc::Done,
                }
            }
            Pc::OpenSetCompiling => {
                n.is_compiling = true;
                Pc::LoadCompiling
            }
            Pc::WpCheckFlags => {
                if !s.is_compiling && s.last != Last::Uninit {
                    Pc::WpCheckEmpty
                } else {
                    Pc::WpWait
                }
            }
            Pc::WpCheckEmpty => {
                if s.chan.is_none() {
                    Pc::Done
                } else {
                    Pc::WpWait
                }
            }
            Pc::WpWait => {
                if s.handlers[h].notified {
                    // the notification arrived between the registration and the await
                    Pc::WpWoken
                } else {
                    Pc::Waiting
                }
            }
            Pc::WpWoken => Pc::WpCheckFlags,
            Pc::Waiting | Pc::Woken | Pc::Done => unreachable!(),
        };
        n.handlers[h].pc = next;
        if next == Pc::WpCheckFlags {
            // arriving at the top of the wait loop: a fresh, enabled `Notified`
            n.handlers[h].registered = true;
            n.handlers[h].notified = false;
        }
        if next == Pc::Done {
            n.handlers[h].registered = false;
            n.handlers[h].notified = false;
        }
        if matches!(next, Pc::Done | Pc::Waiting) {
            n.current = None;
        }
        (label, n)
    }

    fn worker_step(&self, s: &State) -> State {
        let mut n = s.clone();
        n.running = 1;
        n.wpc = match s.wpc {
            Wpc::Recv => {
                n.wreq = s.chan.unwrap();
                n.chan = None;
                Wpc::GotRequest
            }
            Wpc::GotRequest => {
                n.compile_version = s.doc_version;
                // a request that carries a document version (didChange) marks its file as modified and
                // is always compiled in full; a version-less request (didOpen / didSave) for a text that
                // was already compiled successfully takes the cached path
                n.checks_this_compile = if s.wreq.is_none() && s.completed_version == Some(s.doc_version) {
                    self.abort_checks_cached
                } else {
                    self.abort_checks
                };
                Wpc::StartClearRetrigger
            }
            Wpc::StartClearRetrigger => {
                n.retrigger = false;
                Wpc::SetCompiling
            }
            Wpc::SetCompiling => {
                n.is_compiling = true;
                if s.checks_this_compile == 0 {
                    Wpc::FinishSuccess
                } else {
                    Wpc::AbortCheck(1)
                }
            }
            Wpc::AbortCheck(k) => {
                if s.retrigger {
                    Wpc::FinishFailed
                } else if k >= s.checks_this_compile {
                    Wpc::FinishSuccess
                } else {
                    Wpc::AbortCheck(k + 1)
                }
            }
            Wpc::FinishSuccess => {
                n.last = Last::Ok;
                n.completed_version = Some(s.compile_version);
                Wpc::ClearCompiling
            }
            Wpc::FinishFailed => {
                n.last = Last::Failed;
                Wpc::ClearCompiling
            }
            Wpc::ClearCompiling => {
                n.is_compiling = false;
                Wpc::ClearRetrigger
            }
            Wpc::ClearRetrigger => {
                n.retrigger = false;
                Wpc::CheckEmpty
            }
            Wpc::CheckEmpty => {
                if s.chan.is_none() {
                    Wpc::Notify
                } else {
                    Wpc::Recv
                }
            }
            Wpc::Notify => {
                for h in n.handlers.iter_mut() {
                    if h.pc == Pc::Waiting {
                        h.pc = Pc::Woken;
                    } else if h.registered {
                        h.notified = true;
                    }
                }
                n.wreq = None;
                Wpc::Recv
            }
        };
        if n.wpc == Wpc::Recv {
            n.wreq = None;
        }
        n
    }

    /// Violations of the property in a terminal state.
    pub fn verdicts(&self, s: &State) -> Vec<&'static str> {
        let mut v = vec![];
        if s.handlers.iter().any(|h| h.pc == Pc::Waiting) {
            v.push("hang");
        }
        if s.requests_sent > 0 {
            match s.completed_version {
                None => v.push("stale:no-compilation-completed"),
                Some(c) if c < s.doc_version => v.push("stale:last-completed-compilation-predates-last-edit"),
                _ => {}
            }
        }
        v
    }
}

pub struct Explored {
    pub states: usize,
    pub transitions: usize,
    pub terminals: usize,
    /// shortest label path to one terminal state per distinct verdict set
    pub witnesses: Vec<(Vec<&'static str>, Vec<String>)>,
    /// label paths covering every transition of the model at least once (each extended to a
    /// terminal state by always taking the first enabled step)
    pub edge_cover: Vec<Vec<String>>,
}

/// Exhaustive BFS (no preemption bound). `cover_limit` caps the number of edge-cover paths built.
pub fn explore(m: &Model, cover_limit: usize) -> Explored {
    let init = m.initial();
    let mut idx: HashMap<State, usize> = HashMap::new();
    let mut states: Vec<State> = vec![init.clone()];
    let mut parent: Vec<Option<(usize, String)>> = vec![None];
    idx.insert(init, 0);
    let mut q = VecDeque::from([0usize]);
    let mut transitions = 0usize;
    let mut terminals = 0usize;
    let mut edges: Vec<(usize, String, usize)> = vec![];
    let mut witnesses: Vec<(Vec<&'static str>, Vec<String>)> = vec![];
    let path_to = |parent: &Vec<Option<(usize, String)>>, mut i: usize| -> Vec<String> {
        let mut p = vec![];
        while let Some((pi, l)) = &parent[i] {
            p.push(l.clone());
            i = *pi;
        }
        p.reverse();
        p
    };
    while let Some(i) = q.pop_front() {
        let s = states[i].clone();
        let steps = m.steps(&s);
        if steps.is_empty() {
            terminals += 1;
            let v = m.verdicts(&s);
            if !witnesses.iter().any(|(w, _)| *w == v) {
                witnesses.push((v, path_to(&parent, i)));
            }
            continue;
        }
        for (l, n) in steps {
            transitions += 1;
            let j = match idx.get(&n) {
                Some(j) => *j,
                None => {
                    let j = states.len();
                    idx.insert(n.clone(), j);
                    states.push(n);
                    parent.push(Some((i, l.clone())));
                    q.push_back(j);
                    j
                }
            };
            edges.push((i, l, j));
        }
    }
    // edge cover: greedy — walk from each not yet covered edge to a terminal, marking edges on the way
    let mut covered: BTreeSet<(usize, String)> = BTreeSet::new();
    let mut cover = vec![];
    for (i, l, j) in &edges {
        if covered.contains(&(*i, l.clone())) {
            continue;
        }
        if cover.len() >= cover_limit {
            break;
        }
        let mut p = path_to(&parent, *i);
        // mark the tree edges of the prefix
        {
            let mut k = *i;
            while let Some((pi, pl)) = &parent[k] {
                covered.insert((*pi, pl.clone()));
                k = *pi;
            }
        }
        p.push(l.clone());
        covered.insert((*i, l.clone()));
        let mut cur = *j;
        loop {
            let steps = m.steps(&states[cur]);
            let Some((l2, n2)) = steps.into_iter().next() else { break };
            covered.insert((cur, l2.clone()));
            p.push(l2);
            cur = idx[&n2];
        }
        cover.push(p);
    }
    Explored { states: states.len(), transitions, terminals, witnesses, edge_cover: cover }
}

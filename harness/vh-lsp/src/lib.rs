//! Code shared by the per-property binaries of this crate (src/bin/cNN.rs).

pub mod docmodel;
pub mod lspsched;
pub mod c24model;

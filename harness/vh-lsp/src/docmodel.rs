//! Reference *client* model of an LSP text document (C23 oracle).
//!
//! Deliberately boring: the text is a `Vec<u16>` of UTF-16 code units (what a VS Code / JS client
//! holds and what `Position.character` counts when no `positionEncoding` was negotiated —
//! `sway_lsp::server_capabilities()` sets none, so UTF-16 is in force), the line table is rebuilt
//! by a linear scan for every query, nothing is shared with the server implementation.
//!
//! Decisions, each taken from the LSP 3.17 specification text
//! (<https://microsoft.github.io/language-server-protocol/specifications/lsp/3.17/specification/>):
//!
//! D1  *Line endings.* §"Text Documents": "the protocol specifies the following end-of-line
//!     sequences: '\n', '\r\n' and '\r'. Positions are line end character agnostic. So you can not
//!     specify a position that denotes `\r|\n` or `\n|`". The model therefore splits lines at
//!     `\r\n`, `\n` and a lone `\r`; the *length of a line excludes its terminator*. (A lone `\r`
//!     never occurs in the space explored by C23 — the alphabet only has `\r\n` as a symbol and no
//!     addressable position lies between `\r` and `\n` — the check asserts this.)
//! D2  *Column beyond the line.* §"Position": "If the character value is greater than the line
//!     length it defaults back to the line length." Such a position is therefore **valid** and
//!     denotes the end of the line (before the terminator). A server must accept it.
//! D3  *Column inside a surrogate pair.* §"Position": "A position is between two characters like
//!     an 'insert' cursor in an editor." A column that falls between the two UTF-16 code units of
//!     one astral character is not between two characters; the edited client text would contain
//!     unpaired surrogates, which neither JSON-as-UTF-8 nor the server's `String` can represent.
//!     The model deems the range **invalid** (must be rejected, document unchanged).
//! D4  *Start after end.* §"Range" defines a range by "start and end positions … comparable to a
//!     selection in an editor"; the server's own `validate_range` names `start > end` invalid and
//!     the property says invalid ranges are rejected. If the *resolved* (clamped) start offset is
//!     greater than the resolved end offset the range is **invalid**.
//!     If only the *raw* `(line, character)` pairs are out of order but both resolve to the same
//!     offset by D2 (e.g. `(0,9)..(0,7)` on the line `ab`), the specification does not say whether
//!     the comparison happens before or after clamping: **either** rejecting or applying the
//!     (empty-range) edit is accepted.
//! D5  *Line beyond the document.* The specification is silent. The reference implementation of
//!     the protocol's authors (vscode-languageserver-textdocument `offsetAt`) resolves such a
//!     position to the end of the document; other servers reject it. Demanding one of the two would
//!     demand more than the property states, so **either** is accepted: rejected with the document
//!     unchanged, or applied with the position meaning end-of-document. (If the end-of-document
//!     reading makes start > end, D4 applies and the range is invalid under both readings.)

/// One end of a range as the client sends it.
#[derive(Clone, Copy, Debug, PartialEq, Eq, Hash, PartialOrd, Ord)]
pub struct Pos {
    pub line: u32,
    pub character: u32,
}

/// How the model resolved a position.
#[derive(Clone, Copy, Debug, PartialEq, Eq, Hash)]
pub enum PosKind {
    /// `character <= line length`, between two characters.
    Exact,
    /// `character > line length`: clamped to the end of the line (D2).
    PastLineEnd,
    /// `line >= number of lines` (D5); resolved offset is the end of the document.
    LineBeyond,
    /// falls between the two code units of a surrogate pair (D3).
    SplitsSurrogate,
}

#[derive(Clone, Copy, Debug, PartialEq, Eq, Hash)]
pub enum Eol {
    /// last line of the document
    None,
    Lf,
    CrLf,
    Cr,
}

#[derive(Clone, Copy, Debug)]
pub struct Line {
    /// offset (in code units) of the first unit of the line
    pub start: usize,
    /// offset one past the last unit of the line *content* (terminator excluded)
    pub end: usize,
    pub eol: Eol,
}

#[derive(Clone, Copy, Debug)]
pub struct Resolved {
    pub kind: PosKind,
    /// code-unit offset into the document
    pub offset: usize,
    /// a non-ASCII code unit occurs in the same line before `offset`
    pub nonascii_before: bool,
    /// terminator of the addressed line (`Eol::None` for `LineBeyond`)
    pub eol: Eol,
}

/// What the protocol demands of the server for one incremental edit.
#[derive(Clone, Debug, PartialEq, Eq)]
pub enum Verdict {
    /// valid: the server must accept and end up with exactly this text
    MustApply(Vec<u16>),
    /// invalid: the server must reject and keep its text
    MustReject(&'static str),
    /// the specification leaves it open (D4 second half, D5): reject-unchanged or exactly this text
    Either(Vec<u16>, &'static str),
}

#[derive(Clone, Debug, PartialEq, Eq, Hash)]
pub struct ClientDoc {
    pub units: Vec<u16>,
}

const CR: u16 = 0x0D;
const LF: u16 = 0x0A;

fn is_high(u: u16) -> bool {
    (0xD800..0xDC00).contains(&u)
}
fn is_low(u: u16) -> bool {
    (0xDC00..0xE000).contains(&u)
}

impl ClientDoc {
    pub fn new(text: &str) -> ClientDoc {
        ClientDoc {
            units: text.encode_utf16().collect(),
        }
    }

    /// `None` if the units are not well-formed UTF-16 (cannot happen for accepted edits).
    pub fn text(&self) -> Option<String> {
        String::from_utf16(&self.units).ok()
    }

    /// Line table per D1.
    pub fn lines(&self) -> Vec<Line> {
        let u = &self.units;
        let mut out = vec![];
        let mut start = 0usize;
        let mut i = 0usize;
        while i < u.len() {
            if u[i] == CR {
                if i + 1 < u.len() && u[i + 1] == LF {
                    out.push(Line {
                        start,
                        end: i,
                        eol: Eol::CrLf,
                    });
                    i += 2;
                } else {
                    out.push(Line {
                        start,
                        end: i,
                        eol: Eol::Cr,
                    });
                    i += 1;
                }
                start = i;
            } else if u[i] == LF {
                out.push(Line {
                    start,
                    end: i,
                    eol: Eol::Lf,
                });
                i += 1;
                start = i;
            } else {
                i += 1;
            }
        }
        out.push(Line {
            start,
            end: u.len(),
            eol: Eol::None,
        });
        out
    }

    pub fn has_lone_cr(&self) -> bool {
        self.lines().iter().any(|l| l.eol == Eol::Cr)
    }

    pub fn is_ascii(&self) -> bool {
        self.units.iter().all(|&u| u < 0x80)
    }

    pub fn resolve(&self, p: Pos) -> Resolved {
        let lines = self.lines();
        let Some(l) = lines.get(p.line as usize) else {
            return Resolved {
                kind: PosKind::LineBeyond,
                offset: self.units.len(),
                nonascii_before: false,
                eol: Eol::None,
            };
        };
        let len = l.end - l.start;
        let (kind, offset) = if p.character as usize > len {
            (PosKind::PastLineEnd, l.end)
        } else {
            let off = l.start + p.character as usize;
            if off > l.start && off < l.end && is_high(self.units[off - 1]) && is_low(self.units[off])
            {
                (PosKind::SplitsSurrogate, off)
            } else {
                (PosKind::Exact, off)
            }
        };
        Resolved {
            kind,
            offset,
            nonascii_before: self.units[l.start..offset].iter().any(|&u| u >= 0x80),
            eol: l.eol,
        }
    }

    /// What must happen to an incremental change `(start, end, text)`.
    pub fn judge(&self, start: Pos, end: Pos, text: &str) -> Verdict {
        let s = self.resolve(start);
        let e = self.resolve(end);
        if s.kind == PosKind::SplitsSurrogate || e.kind == PosKind::SplitsSurrogate {
            return Verdict::MustReject("position splits a surrogate pair (D3)");
        }
        if s.offset > e.offset {
            return Verdict::MustReject("start after end (D4)");
        }
        let mut out: Vec<u16> = self.units[..s.offset].to_vec();
        out.extend(text.encode_utf16());
        out.extend_from_slice(&self.units[e.offset..]);
        if s.kind == PosKind::LineBeyond || e.kind == PosKind::LineBeyond {
            return Verdict::Either(out, "line beyond the document (D5)");
        }
        if start > end {
            return Verdict::Either(out, "raw start after raw end, equal after clamping (D4)");
        }
        Verdict::MustApply(out)
    }

    /// Every position the check enumerates for this document: for each line every column
    /// `0..=len+1` (so: every code-unit boundary including the inside of surrogate pairs, the line
    /// end, and one past the line end), and for the line one past the last line columns 0 and 1.
    pub fn all_positions(&self) -> Vec<Pos> {
        let mut out = vec![];
        let lines = self.lines();
        for (li, l) in lines.iter().enumerate() {
            for c in 0..=(l.end - l.start + 1) {
                out.push(Pos {
                    line: li as u32,
                    character: c as u32,
                });
            }
        }
        for c in 0..=1 {
            out.push(Pos {
                line: lines.len() as u32,
                character: c,
            });
        }
        out
    }

    /// Closed-form size of `all_positions` computed independently (for the vacuity guard):
    /// units + 2 per line − terminator units + 2.
    pub fn position_count_closed_form(&self) -> usize {
        let mut n_lines = 1usize;
        let mut eol_units = 0usize;
        let u = &self.units;
        let mut i = 0;
        while i < u.len() {
            if u[i] == CR && i + 1 < u.len() && u[i + 1] == LF {
                n_lines += 1;
                eol_units += 2;
                i += 2;
            } else if u[i] == CR || u[i] == LF {
                n_lines += 1;
                eol_units += 1;
                i += 1;
            } else {
                i += 1;
            }
        }
        (u.len() - eol_units) + 2 * n_lines + 2
    }
}

#[cfg(test)]
mod tests {
    use super::*;
    fn p(line: u32, character: u32) -> Pos {
        Pos { line, character }
    }
    #[test]
    fn lines_and_positions() {
        let d = ClientDoc::new("é😀x\r\nab\n");
        let l = d.lines();
        assert_eq!(l.len(), 3);
        assert_eq!((l[0].start, l[0].end, l[0].eol), (0, 4, Eol::CrLf));
        assert_eq!((l[1].start, l[1].end, l[1].eol), (6, 8, Eol::Lf));
        assert_eq!((l[2].start, l[2].end, l[2].eol), (9, 9, Eol::None));
        assert_eq!(d.all_positions().len(), d.position_count_closed_form());
        assert_eq!(d.resolve(p(0, 2)).kind, PosKind::SplitsSurrogate);
        assert_eq!(d.resolve(p(0, 3)).kind, PosKind::Exact);
        assert_eq!(d.resolve(p(0, 5)).kind, PosKind::PastLineEnd);
        assert_eq!(d.resolve(p(0, 5)).offset, 4);
        assert_eq!(d.resolve(p(3, 0)).kind, PosKind::LineBeyond);
    }
    #[test]
    fn judge() {
        let d = ClientDoc::new("é😀x\nab");
        assert_eq!(
            d.judge(p(0, 3), p(0, 4), "y"),
            Verdict::MustApply(ClientDoc::new("é😀y\nab").units)
        );
        assert!(matches!(d.judge(p(0, 2), p(0, 3), ""), Verdict::MustReject(_)));
        assert!(matches!(d.judge(p(1, 1), p(0, 0), ""), Verdict::MustReject(_)));
        assert_eq!(
            d.judge(p(0, 9), p(1, 0), ""),
            Verdict::MustApply(ClientDoc::new("é😀xab").units)
        );
        assert!(matches!(d.judge(p(1, 2), p(2, 0), "z"), Verdict::Either(..)));
        assert!(matches!(d.judge(p(1, 9), p(1, 7), "z"), Verdict::Either(..)));
    }
}

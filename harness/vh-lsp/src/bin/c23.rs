//! C23 — LSP document sync reproduces the client's text.
//!
//! Explicit-state BFS (engine E-bfs) in which **every transition calls the real code**
//! (`sway_lsp::core::document::Documents::{handle_open_file, update_text_document,
//! write_changes_to_file, get_text_document}` → `TextDocument::{build_from_path, apply_change}`),
//! checked against the boring UTF-16 client model of `vh_lsp::docmodel` (which also documents, with
//! the LSP 3.17 sentences they rest on, the decisions D1–D5 about what is valid / invalid / open).
//!
//! Declared space
//!   initial documents  all strings of ≤ 3 symbols over {"a","é","😀","\n","\r\n"} (156), each
//!                      written to a real file and opened with `handle_open_file`;
//!   edits per state    full replacement (range None) by each of the 156 documents, and
//!                      incremental (start, end, text) for ALL pairs of positions of the current
//!                      client document — every line, every column 0..=len16+1 (so: inside
//!                      surrogate pairs, at line end, one past line end), plus the line one past the
//!                      last line (columns 0,1); all ordered pairs incl. start > end;
//!                      text ∈ {"", "x", "é", "😀", "\n"};
//!   histories          ≤ DEPTH edits (quick 3, thorough 5; `C23_DEPTH` overrides), BFS, states deduplicated by (client text, server text);
//!                      a state is expanded only if client == server (a divergence is a violation
//!                      and is reported with its history instead of being explored further).
//!
//! Oracle: after an edit the model calls valid the server accepted and holds exactly the client's
//! text; an edit the model calls invalid was rejected (`Err`) with the text unchanged; where the
//! specification is silent either outcome is fine; no panic.

use lsp_types::{Position, Range, TextDocumentContentChangeEvent, Url};
use serde_json::{json, Value};
use std::collections::{BTreeMap, HashMap};
use std::panic::AssertUnwindSafe;
use std::path::{Path, PathBuf};
use sway_lsp::core::document::{Documents, TextDocument};
use vh_lsp::docmodel::{ClientDoc, Eol, Pos, PosKind, Resolved, Verdict};
use vhcore::{enumerate, machinery_failure, Args, Reporter};

const ALPHABET: [&str; 5] = ["a", "é", "😀", "\n", "\r\n"];
const MAX_DOC_SYMBOLS: usize = 3;
const TEXTS: [&str; 5] = ["", "x", "é", "😀", "\n"];
/// states per parallel batch (bounds the memory held in un-merged successor lists)
const CHUNK: usize = 2048;

fn main() {
    let a = vhcore::parse_args();
    vhcore::silence_panics();
    let code = match a.cmd.as_str() {
        "check" => run(&a),
        "replay" => replay(&a),
        _ => machinery_failure("usage: c23 check C23 --tier quick|thorough | c23 replay C23 <path>"),
    };
    std::process::exit(code);
}

// ---------------------------------------------------------------------------------------------
// Edits

/// Compact edit (8 bytes): indices into the initial-document table / `TEXTS`.
#[derive(Clone, Copy, Debug, PartialEq, Eq, Hash)]
enum Edit {
    Full(u16),
    Inc { s: (u8, u8), e: (u8, u8), text: u8 },
}

struct Space {
    /// the 156 initial documents, shortest first, odometer order
    docs: Vec<String>,
    files: Vec<PathBuf>,
    uris: Vec<Url>,
}

impl Space {
    fn edit_text<'a>(&'a self, e: &Edit) -> &'a str {
        match e {
            Edit::Full(i) => &self.docs[*i as usize],
            Edit::Inc { text, .. } => TEXTS[*text as usize],
        }
    }
    fn event(&self, e: &Edit) -> TextDocumentContentChangeEvent {
        event_of(edit_range(e), self.edit_text(e))
    }
    fn edit_json(&self, e: &Edit) -> Value {
        match e {
            Edit::Full(_) => json!({"range": Value::Null, "text": self.edit_text(e)}),
            Edit::Inc { s, e: en, .. } => {
                json!({"range": [s.0, s.1, en.0, en.1], "text": self.edit_text(e)})
            }
        }
    }
}

fn edit_range(e: &Edit) -> Option<(Pos, Pos)> {
    match e {
        Edit::Full(_) => None,
        Edit::Inc { s, e, .. } => Some((
            Pos {
                line: s.0 as u32,
                character: s.1 as u32,
            },
            Pos {
                line: e.0 as u32,
                character: e.1 as u32,
            },
        )),
    }
}

fn event_of(range: Option<(Pos, Pos)>, text: &str) -> TextDocumentContentChangeEvent {
    TextDocumentContentChangeEvent {
        range: range.map(|(s, e)| {
            Range::new(
                Position::new(s.line, s.character),
                Position::new(e.line, e.character),
            )
        }),
        range_length: None,
        text: text.to_string(),
    }
}

// ---------------------------------------------------------------------------------------------
// Driving the real server code

/// What the real code did with one change.
#[derive(Clone, Debug)]
enum Outcome {
    /// `Ok(text)`; `.1` = text read back with `get_text_document`
    Accepted(String, String),
    /// `Err(e)`; `.1` = text read back afterwards
    Rejected(String, String),
    /// panic (message, normalised location); `.2` = text read back afterwards
    Panicked(String, String, String),
}

impl Outcome {
    fn kind(&self) -> &'static str {
        match self {
            Outcome::Accepted(..) => "accepted",
            Outcome::Rejected(..) => "rejected",
            Outcome::Panicked(..) => "panicked",
        }
    }
    fn server_text(&self) -> &str {
        match self {
            Outcome::Accepted(_, t) | Outcome::Rejected(_, t) | Outcome::Panicked(_, _, t) => t,
        }
    }
}

fn norm_loc(loc: &str) -> String {
    let repo = vhcore::repo_root();
    let repo = repo.to_string_lossy();
    if let Some(rest) = loc.strip_prefix(&format!("{repo}/")) {
        return rest.to_string();
    }
    if let Some(i) = loc.find("/library/") {
        return format!("rust:{}", &loc[i + 1..]);
    }
    loc.to_string()
}

thread_local! {
    /// Signature of the server document's hidden state (its line table, observed through the
    /// public `get_line`) as of the last `read_back` on this thread. Two server documents with the
    /// same text but different line tables have DIFFERENT futures, so they must not be merged
    /// into one BFS state (merging them hid a seeded bug that only shows on the edit after next).
    static LAST_SIG: std::cell::RefCell<String> = const { std::cell::RefCell::new(String::new()) };
}

fn line_sig_of(d: &TextDocument) -> String {
    let text = d.get_text();
    let n = text.matches('\n').count() + 2;
    let mut parts = vec![];
    for i in 0..n {
        let r = std::panic::catch_unwind(AssertUnwindSafe(|| d.get_line(i).to_string()));
        parts.push(match r {
            Ok(l) => l,
            Err(_) => "\u{3}panic".to_string(),
        });
    }
    parts.join("\u{2}")
}

/// What `line_sig_of` yields for a document whose line table is consistent with its text.
fn clean_sig(text: &str) -> String {
    let mut offsets = vec![0usize];
    for (i, c) in text.char_indices() {
        if c == '\n' {
            offsets.push(i + 1);
        }
    }
    let n = text.matches('\n').count() + 2;
    let mut parts = vec![];
    for i in 0..n {
        let start = offsets.get(i).copied().unwrap_or(text.len());
        let end = offsets.get(i + 1).copied().unwrap_or(text.len());
        parts.push(text[start..end].to_string());
    }
    parts.join("\u{2}")
}

/// BFS state key: the text alone when the hidden state is the canonical one for that text,
/// otherwise text + signature.
fn state_key(text: &str, sig: &str) -> String {
    if sig == clean_sig(text) {
        text.to_string()
    } else {
        format!("{text}\u{1}{sig}")
    }
}

fn read_back(docs: &Documents, uri: &Url) -> String {
    match docs.get_text_document(uri) {
        Ok(d) => {
            let sig = line_sig_of(&d);
            LAST_SIG.with(|c| *c.borrow_mut() = sig);
            d.get_text().to_string()
        }
        Err(e) => machinery_failure(&format!("cannot read the server's document back: {e}")),
    }
}

/// Put `snapshot` (a clone of a document produced by the real code) in place and apply one
/// change through the real `update_text_document`.
fn step(
    docs: &Documents,
    uri: &Url,
    snapshot: &TextDocument,
    ev: &TextDocumentContentChangeEvent,
) -> Outcome {
    let _ = docs.remove_document(uri);
    if docs.store_document(snapshot.clone()).is_err() {
        machinery_failure("store_document failed on an empty slot");
    }
    let r = std::panic::catch_unwind(AssertUnwindSafe(|| {
        docs.update_text_document(uri, std::slice::from_ref(ev))
    }));
    let after = read_back(docs, uri);
    match r {
        Ok(Ok(t)) => Outcome::Accepted(t, after),
        Ok(Err(e)) => Outcome::Rejected(e.to_string(), after),
        Err(p) => {
            let msg = if let Some(s) = p.downcast_ref::<String>() {
                s.clone()
            } else if let Some(s) = p.downcast_ref::<&str>() {
                s.to_string()
            } else {
                "<non-string panic>".into()
            };
            Outcome::Panicked(msg, norm_loc(&vhcore::take_panic_loc()), after)
        }
    }
}

fn new_runtime() -> tokio::runtime::Runtime {
    tokio::runtime::Builder::new_current_thread()
        .enable_all()
        .build()
        .unwrap_or_else(|e| machinery_failure(&format!("tokio runtime: {e}")))
}

/// Same, but through `write_changes_to_file` — the call `handle_did_change_text_document` makes.
/// Only the in-memory document is observed: `write_changes_to_file` does not flush its
/// `tokio::fs::File`, so the bytes reach the disk at some later time (outside C23's statement).
fn step_via_handler_path(
    rt: &mut tokio::runtime::Runtime,
    docs: &Documents,
    uri: &Url,
    snapshot: &TextDocument,
    ev: &TextDocumentContentChangeEvent,
) -> Outcome {
    let _ = docs.remove_document(uri);
    if docs.store_document(snapshot.clone()).is_err() {
        machinery_failure("store_document failed on an empty slot");
    }
    let r = std::panic::catch_unwind(AssertUnwindSafe(|| {
        rt.block_on(docs.write_changes_to_file(uri, std::slice::from_ref(ev)))
    }));
    let after = read_back(docs, uri);
    match r {
        Ok(Ok(())) => Outcome::Accepted(after.clone(), after),
        Ok(Err(e)) => Outcome::Rejected(e.to_string(), after),
        Err(p) => {
            // a runtime that unwound out of block_on is replaced
            *rt = new_runtime();
            let msg = if let Some(s) = p.downcast_ref::<String>() {
                s.clone()
            } else if let Some(s) = p.downcast_ref::<&str>() {
                s.to_string()
            } else {
                "<non-string panic>".into()
            };
            Outcome::Panicked(msg, norm_loc(&vhcore::take_panic_loc()), after)
        }
    }
}

/// Open `file` with the real `handle_open_file` (→ `TextDocument::build_from_path`) into a fresh
/// `Documents`.
fn open(rt: &tokio::runtime::Runtime, docs: &Documents, uri: &Url) -> Option<TextDocument> {
    let _ = docs.remove_document(uri);
    rt.block_on(docs.handle_open_file(uri));
    docs.get_text_document(uri).ok()
}

// ---------------------------------------------------------------------------------------------
// Judging one transition

/// Failure shape of a transition, `None` = conforms.
fn shape(before: &str, verdict: &Verdict, out: &Outcome) -> Option<(String, String)> {
    let exp_text = |u: &Vec<u16>| String::from_utf16(u).unwrap_or_else(|_| "<ill-formed>".into());
    match out {
        Outcome::Panicked(msg, loc, _) => {
            let short: String = msg
                .chars()
                .filter(|c| !c.is_ascii_digit())
                .take(48)
                .collect();
            Some((
                format!("panic@{loc}[{}]", short.trim()),
                format!("panicked: {msg}"),
            ))
        }
        Outcome::Accepted(ret, after) => {
            if ret != after {
                return Some((
                    "returned-text-differs-from-stored".into(),
                    format!("update_text_document returned {ret:?} but the document holds {after:?}"),
                ));
            }
            match verdict {
                Verdict::MustApply(u) | Verdict::Either(u, _) => {
                    let exp = exp_text(u);
                    if *after == exp {
                        None
                    } else {
                        Some((
                            "wrong-text".into(),
                            format!("accepted; server text {after:?} != client text {exp:?}"),
                        ))
                    }
                }
                Verdict::MustReject(why) => Some((
                    if after == before {
                        "invalid-accepted-noop".into()
                    } else {
                        "invalid-accepted".into()
                    },
                    format!("invalid range ({why}) accepted; server text now {after:?}"),
                )),
            }
        }
        Outcome::Rejected(err, after) => {
            if after != before {
                return Some((
                    "rejected-but-altered".into(),
                    format!("rejected ({err}) yet the text changed from {before:?} to {after:?}"),
                ));
            }
            match verdict {
                Verdict::MustApply(u) => Some((
                    "valid-rejected".into(),
                    format!(
                        "valid range rejected ({err}); client text would be {:?}",
                        exp_text(u)
                    ),
                )),
                Verdict::MustReject(_) | Verdict::Either(..) => None,
            }
        }
    }
}

/// Input predicate of the classifier: the *first* matching cause in a fixed priority order, plus
/// the document class. Computed from the client document before the edit and the edit only.
fn cause(c: &ClientDoc, range: Option<(Pos, Pos)>, text: &str) -> String {
    let docclass = if c.is_ascii() { "ascii-doc" } else { "nonascii-doc" };
    let Some((s, e)) = range else {
        return format!("full-replace|{docclass}");
    };
    let rs = c.resolve(s);
    let re = c.resolve(e);
    let any = |f: &dyn Fn(&Resolved) -> bool| f(&rs) || f(&re);
    let primary = if any(&|r| r.kind == PosKind::SplitsSurrogate) {
        "splits-surrogate"
    } else if any(&|r| r.nonascii_before) {
        "after-nonascii-in-line"
    } else if any(&|r| r.kind == PosKind::PastLineEnd && r.eol == Eol::CrLf) {
        "past-line-end-crlf"
    } else if any(&|r| r.kind == PosKind::PastLineEnd && r.eol == Eol::Cr) {
        "past-line-end-cr"
    } else if any(&|r| r.kind == PosKind::PastLineEnd && r.eol == Eol::Lf) {
        "past-line-end-lf"
    } else if any(&|r| r.kind == PosKind::PastLineEnd) {
        "past-line-end-lastline"
    } else if any(&|r| r.kind == PosKind::LineBeyond) {
        "line-beyond-doc"
    } else if s > e {
        "start-after-end"
    } else if text.is_ascii() {
        "in-range"
    } else {
        "in-range-nonascii-text"
    };
    // for the causes that do not already name a line ending, say whether the document has CRLF
    // line endings at all (so that a line-ending bug on in-range positions gets its own keys)
    let generic = matches!(
        primary,
        "line-beyond-doc" | "start-after-end" | "in-range" | "in-range-nonascii-text"
    );
    if generic && c.units.contains(&0x0D) {
        format!("{primary}|{docclass}+crlf")
    } else {
        format!("{primary}|{docclass}")
    }
}

fn kind_name(k: PosKind) -> &'static str {
    match k {
        PosKind::Exact => "exact",
        PosKind::PastLineEnd => "past-eol",
        PosKind::LineBeyond => "line-beyond",
        PosKind::SplitsSurrogate => "splits-surrogate",
    }
}

fn verdict_name(v: &Verdict) -> &'static str {
    match v {
        Verdict::MustApply(_) => "must-apply",
        Verdict::MustReject(_) => "must-reject",
        Verdict::Either(..) => "either",
    }
}

// ---------------------------------------------------------------------------------------------
// BFS

struct State {
    text: String,
    /// (parent state, edit) — `None` for an initial document
    parent: Option<(u32, Edit)>,
    init: u16,
}

#[derive(Default)]
struct StateResult {
    transitions: u64,
    handler_path_transitions: u64,
    expected_transitions: u64,
    /// (start kind, end kind | "full", verdict, outcome) → count
    tuples: BTreeMap<(String, String, String, String), u64>,
    /// new successor texts in enumeration order with the first edit that produced them
    succ: Vec<(String, Edit, String)>,
    /// class key → (count, what, replay) of the first case
    viol: BTreeMap<String, (u64, String, Value)>,
    sample: Option<Value>,
}

fn path_of(states: &[State], mut i: usize) -> (u16, Vec<Edit>) {
    let mut edits = vec![];
    while let Some((p, e)) = states[i].parent {
        edits.push(e);
        i = p as usize;
    }
    edits.reverse();
    (states[i].init, edits)
}

fn replay_json(sp: &Space, init: u16, path: &[Edit], last: Option<&Edit>) -> Value {
    let mut edits: Vec<Value> = path.iter().map(|e| sp.edit_json(e)).collect();
    if let Some(l) = last {
        edits.push(sp.edit_json(l));
    }
    json!({"initial": sp.docs[init as usize], "edits": edits})
}

fn all_edits(sp: &Space, c: &ClientDoc) -> Vec<Edit> {
    let mut out = Vec::new();
    for i in 0..sp.docs.len() {
        out.push(Edit::Full(i as u16));
    }
    let ps = c.all_positions();
    for s in &ps {
        for e in &ps {
            for t in 0..TEXTS.len() {
                out.push(Edit::Inc {
                    s: (s.line as u8, s.character as u8),
                    e: (e.line as u8, e.character as u8),
                    text: t as u8,
                });
            }
        }
    }
    out
}

thread_local! {
    /// one tokio runtime per worker thread (creating one per state costs a thread spawn each)
    static RT: std::cell::RefCell<Option<tokio::runtime::Runtime>> = const { std::cell::RefCell::new(None) };
}

fn explore_state(
    sp: &Space,
    states: &[State],
    idx: usize,
    seen: &HashMap<String, u32>,
    via_handler: bool,
    work: &Path,
) -> StateResult {
    let mut rt = RT.with(|c| c.borrow_mut().take()).unwrap_or_else(new_runtime);
    let res = explore_state_on(&mut rt, sp, states, idx, seen, via_handler, work);
    RT.with(|c| *c.borrow_mut() = Some(rt));
    res
}

fn explore_state_on(
    rt: &mut tokio::runtime::Runtime,
    sp: &Space,
    states: &[State],
    idx: usize,
    seen: &HashMap<String, u32>,
    via_handler: bool,
    work: &Path,
) -> StateResult {
    let mut res = StateResult::default();
    let st = &states[idx];
    let (init, path) = path_of(states, idx);
    let docs = Documents::new();
    let uri = &sp.uris[init as usize];

    // materialise the server state by the real code: open the file, re-apply the witness history
    let Some(opened) = open(rt, &docs, uri) else {
        machinery_failure(&format!("handle_open_file did not store {uri}"));
    };
    if path.is_empty() && opened.get_text() != sp.docs[init as usize] {
        res.viol.insert(
            format!("open-mismatch|{}", cause(&ClientDoc::new(&st.text), None, "")),
            (
                1,
                format!(
                    "document opened from file holds {:?}, file holds {:?}",
                    opened.get_text(),
                    sp.docs[init as usize]
                ),
                replay_json(sp, init, &[], None),
            ),
        );
        return res;
    }
    for e in &path {
        let r = std::panic::catch_unwind(AssertUnwindSafe(|| {
            docs.update_text_document(uri, &[sp.event(e)])
        }));
        if !matches!(r, Ok(Ok(_)) | Ok(Err(_))) {
            machinery_failure("witness history panicked on re-execution (non-determinism)");
        }
    }
    let snapshot = docs
        .get_text_document(uri)
        .unwrap_or_else(|e| machinery_failure(&format!("snapshot: {e}")));
    if snapshot.get_text() != st.text {
        machinery_failure(&format!(
            "witness history of state {idx} did not reproduce its text (non-determinism): {:?} vs {:?}",
            snapshot.get_text(),
            st.text
        ));
    }

    let client = ClientDoc::new(&st.text);
    if client.has_lone_cr() {
        machinery_failure("a lone CR appeared in a client text (outside the declared space)");
    }
    let np = client.position_count_closed_form() as u64;
    res.expected_transitions = sp.docs.len() as u64 + np * np * TEXTS.len() as u64;

    // scratch copy for the handler path (write_changes_to_file overwrites the file)
    let hfile = work.join("h").join(format!("{idx}.sw"));
    let huri = Url::from_file_path(&hfile).unwrap();
    let hsnap = if via_handler {
        std::fs::write(&hfile, &st.text).unwrap_or_else(|e| machinery_failure(&format!("{e}")));
        let d = open(rt, &docs, &huri)
            .unwrap_or_else(|| machinery_failure("handle_open_file (handler path) failed"));
        if d.get_text() != st.text {
            machinery_failure("handler-path document differs from the state text");
        }
        Some(d)
    } else {
        None
    };

    let mut local_new: HashMap<String, ()> = HashMap::new();
    for e in all_edits(sp, &client) {
        let range = edit_range(&e);
        let text = sp.edit_text(&e);
        let verdict = match range {
            None => Verdict::MustApply(text.encode_utf16().collect()),
            Some((s, en)) => client.judge(s, en, text),
        };
        let ev = sp.event(&e);
        let out = step(&docs, uri, &snapshot, &ev);
        let out_sig = LAST_SIG.with(|c| c.borrow().clone());
        res.transitions += 1;

        let (ks, ke) = match range {
            None => ("full".to_string(), "full".to_string()),
            Some((s, en)) => (
                kind_name(client.resolve(s).kind).to_string(),
                kind_name(client.resolve(en).kind).to_string(),
            ),
        };
        *res.tuples
            .entry((ks, ke, verdict_name(&verdict).into(), out.kind().into()))
            .or_insert(0) += 1;

        let mut bad = shape(&st.text, &verdict, &out);

        if bad.is_none() {
            if let Some(hs) = &hsnap {
                // the same change through the call the real notification handler makes
                let hout = step_via_handler_path(rt, &docs, &huri, hs, &ev);
                res.handler_path_transitions += 1;
                if hout.kind() != out.kind() || hout.server_text() != out.server_text() {
                    bad = Some((
                        "handler-path-differs".into(),
                        format!(
                            "write_changes_to_file → {} {:?}, update_text_document → {} {:?}",
                            hout.kind(),
                            hout.server_text(),
                            out.kind(),
                            out.server_text()
                        ),
                    ));
                }
            }
        }

        match bad {
            Some((shape_key, what)) => {
                let key = format!("{shape_key}|{}", cause(&client, range, text));
                let ent = res.viol.entry(key).or_insert_with(|| {
                    (
                        0,
                        format!("doc {:?} edit {}: {what}", st.text, sp.edit_json(&e)),
                        replay_json(sp, init, &path, Some(&e)),
                    )
                });
                ent.0 += 1;
            }
            None => {
                // conforming: client and server agree on the new text
                let new_text = out.server_text();
                // one deterministic, state-dependent pick (no randomness): the first conforming
                // incremental transition at or after ordinal (idx * 7919) mod |edits|
                if res.sample.is_none()
                    && range.is_some()
                    && res.transitions > (idx as u64 * 7919) % res.expected_transitions
                {
                    res.sample = Some(json!({"before": st.text, "edit": sp.edit_json(&e),
                        "verdict": verdict_name(&verdict), "server": out.kind(), "after": new_text}));
                }
                let key = state_key(new_text, &out_sig);
                if !seen.contains_key(&key) && !local_new.contains_key(&key) {
                    local_new.insert(key.clone(), ());
                    res.succ.push((new_text.to_string(), e, key));
                }
            }
        }
    }
    res
}

fn setup_space(work: &Path) -> Space {
    let mut docs = vec![];
    for len in 0..=MAX_DOC_SYMBOLS {
        enumerate::for_each_with_prefix(&ALPHABET, len, &[], &mut |_, s| docs.push(s.to_string()));
    }
    if docs.len() as u64 != enumerate::count_upto(ALPHABET.len(), MAX_DOC_SYMBOLS) {
        machinery_failure("document enumerator disagrees with its closed-form count");
    }
    let ddir = work.join("docs");
    std::fs::create_dir_all(&ddir).unwrap_or_else(|e| machinery_failure(&format!("{e}")));
    std::fs::create_dir_all(work.join("h")).unwrap_or_else(|e| machinery_failure(&format!("{e}")));
    let mut files = vec![];
    let mut uris = vec![];
    for (i, d) in docs.iter().enumerate() {
        let f = ddir.join(format!("{i}.sw"));
        std::fs::write(&f, d).unwrap_or_else(|e| machinery_failure(&format!("{e}")));
        uris.push(Url::from_file_path(&f).unwrap_or_else(|_| machinery_failure("bad path")));
        files.push(f);
    }
    Space { docs, files, uris }
}

fn run(a: &Args) -> i32 {
    let mut rep = Reporter::from_args(a, "model_checking");
    let depth: usize = std::env::var("C23_DEPTH")
        .ok()
        .and_then(|s| s.parse().ok())
        .unwrap_or(a.tier.pick(3, 5));
    // scratch files live in work/C23/run (wiped per run); work/C23/fix-*.patch are left alone
    let work = vhcore::verif_root().join("work").join("C23").join("run");
    let _ = std::fs::remove_dir_all(&work);
    std::fs::create_dir_all(&work).unwrap_or_else(|e| machinery_failure(&format!("work dir: {e}")));
    let sp = setup_space(&work);
    {
        let mut uniq: Vec<&String> = sp.docs.iter().collect();
        uniq.sort();
        uniq.dedup();
        if uniq.len() != sp.docs.len() {
            machinery_failure("initial documents are not pairwise distinct");
        }
    }

    let mut states: Vec<State> = vec![];
    let mut seen: HashMap<String, u32> = HashMap::new();
    for (i, d) in sp.docs.iter().enumerate() {
        seen.insert(d.clone(), i as u32);
        states.push(State {
            text: d.clone(),
            parent: None,
            init: i as u16,
        });
    }

    let n_handler = enumerate::count_upto(ALPHABET.len(), 2) as usize;
    let mut transitions = 0u64;
    let mut handler_transitions = 0u64;
    let mut tuples: BTreeMap<(String, String, String, String), u64> = BTreeMap::new();
    let mut viol: BTreeMap<String, (u64, String, Value)> = BTreeMap::new();
    let mut layer_sizes = vec![states.len()];
    let mut layer_transitions = vec![];
    let mut expanded = 0usize;
    let mut layer_start = 0usize;
    for d in 0..depth {
        let layer_end = states.len();
        let mut lt = 0u64;
        let mut from = layer_start;
        while from < layer_end {
            let to = (from + CHUNK).min(layer_end);
            let results = vhcore::par_map_idx(to - from, a.jobs, |k| {
                // the handler-path double check (tokio::fs, two blocking-pool hand-offs per
                // transition) is run for every edit of the initial documents of <= 2 symbols
                explore_state(&sp, &states, from + k, &seen, d == 0 && from + k < n_handler, &work)
            });
            for (k, r) in results.into_iter().enumerate() {
                if r.viol.keys().any(|k| k.starts_with("open-mismatch")) {
                    // nothing was explored from this state
                } else if r.transitions != r.expected_transitions {
                    machinery_failure(&format!(
                        "edit enumerator produced {} edits for {:?}, closed form says {}",
                        r.transitions,
                        states[from + k].text,
                        r.expected_transitions
                    ));
                }
                expanded += 1;
                lt += r.transitions;
                handler_transitions += r.handler_path_transitions;
                for (t, n) in r.tuples {
                    *tuples.entry(t).or_insert(0) += n;
                }
                for (key, (n, what, rp)) in r.viol {
                    let e = viol.entry(key).or_insert((0, what, rp));
                    e.0 += n;
                }
                if let Some(s) = r.sample {
                    // spread the 12 evidence samples over the layers
                    let stride = ((layer_end - layer_start) / 3).max(1);
                    if (from + k - layer_start) % stride == stride / 2 {
                        rep.sample(s);
                    }
                }
                for (text, e, key) in r.succ {
                    if !seen.contains_key(&key) {
                        seen.insert(key, states.len() as u32);
                        let init = states[from + k].init;
                        states.push(State {
                            text,
                            parent: Some(((from + k) as u32, e)),
                            init,
                        });
                    }
                }
            }
            from = to;
        }
        transitions += lt;
        layer_transitions.push(lt);
        layer_sizes.push(states.len() - layer_end);
        layer_start = layer_end;
    }
    let _ = &sp.files;

    // vacuity guards
    let outcomes: std::collections::BTreeSet<&str> =
        tuples.keys().map(|t| t.3.as_str()).collect();
    let verdicts: std::collections::BTreeSet<&str> =
        tuples.keys().map(|t| t.2.as_str()).collect();
    if outcomes.len() < 2 || verdicts.len() < 3 {
        machinery_failure(&format!(
            "vacuous run: outcomes {outcomes:?}, verdict kinds {verdicts:?}"
        ));
    }
    if transitions == 0 || expanded == 0 {
        machinery_failure("vacuous run: nothing explored");
    }

    let mut total_bad = 0u64;
    for (key, (n, what, rp)) in &viol {
        total_bad += n;
        rep.violation(key, &format!("{what} [{n} transitions in this class]"), rp.clone());
    }

    rep.set("evaluations", transitions + handler_transitions + sp.docs.len() as u64);
    rep.set("states", states.len() as u64);
    rep.set("states_expanded", expanded as u64);
    rep.set("transitions", transitions);
    rep.set("traces_validated_against_impl", transitions);
    rep.set("handler_path_transitions", handler_transitions);
    rep.set(
        "handler_path_scope",
        "every conforming edit of the initial documents of <= 2 symbols is additionally applied through Documents::write_changes_to_file (the call handle_did_change_text_document makes) and must give the same outcome and in-memory text",
    );
    rep.set("nonconforming_transitions", total_bad);
    rep.set("distinct_nontrivial", tuples.len() as u64);
    rep.set(
        "rule",
        "distinct (start position kind, end position kind, model verdict, server outcome) tuples observed over all transitions",
    );
    rep.set(
        "tuple_histogram",
        Value::Array(
            tuples
                .iter()
                .map(|((s, e, v, o), n)| json!({"start": s, "end": e, "verdict": v, "server": o, "n": n}))
                .collect(),
        ),
    );
    rep.set("history_depth", depth as u64);
    rep.set("states_per_layer", json!(layer_sizes));
    rep.set("transitions_per_layer", json!(layer_transitions));
    rep.set("initial_documents", sp.docs.len() as u64);
    rep.set("alphabet", json!(ALPHABET));
    rep.set("insert_texts", json!(TEXTS));
    rep.set(
        "space",
        format!(
            "initial docs = all strings of <= {MAX_DOC_SYMBOLS} symbols over the alphabet; per state: full replacement by each initial doc + (start,end,text) over all pairs of positions (every line, columns 0..=len16+1, plus line one past the last with columns 0,1) x insert_texts; all histories of <= {depth} edits (BFS, dedup by (client text, server text, server line table as observed through get_line); last layer's successors are counted as states but not expanded)"
        ),
    );
    rep.set("exhaustive", true);
    rep.assume("position encoding is UTF-16 (server_capabilities() negotiates no positionEncoding)");
    rep.assume("oracle decisions D1-D5 (vh-lsp/src/docmodel.rs): column past line end is valid and clamps; column inside a surrogate pair and resolved start>end are invalid; a line beyond the document, and raw start>end that clamps to an empty range, may be rejected or applied");
    rep.assume("one content change per didChange notification; a lone CR never occurs in the explored space");
    rep.assume("server state is materialised per BFS state by re-opening the initial file and re-applying the witness history through the real code; each transition starts from a clone of that TextDocument (get_text_document/store_document)");
    rep.finish()
}

// ---------------------------------------------------------------------------------------------
// Replay

fn replay(a: &Args) -> i32 {
    let Some(p) = &a.replay else {
        machinery_failure("replay needs a path");
    };
    let txt = std::fs::read_to_string(p).unwrap_or_else(|e| machinery_failure(&format!("{e}")));
    let v: Value = serde_json::from_str(&txt).unwrap_or_else(|e| machinery_failure(&format!("{e}")));
    let r = if v.get("replay").is_some() { &v["replay"] } else { &v };
    let Some(initial) = r["initial"].as_str() else {
        machinery_failure("replay file has no `initial`");
    };
    let dir = vhcore::verif_root().join("work").join("C23-replay");
    let _ = std::fs::remove_dir_all(&dir);
    std::fs::create_dir_all(&dir).unwrap_or_else(|e| machinery_failure(&format!("{e}")));
    let file = dir.join("doc.sw");
    std::fs::write(&file, initial).unwrap_or_else(|e| machinery_failure(&format!("{e}")));
    let uri = Url::from_file_path(&file).unwrap();
    let rt = new_runtime();
    let docs = Documents::new();
    let Some(opened) = open(&rt, &docs, &uri) else {
        machinery_failure("handle_open_file failed");
    };
    println!("open  file={initial:?} server={:?}", opened.get_text());
    let mut failed = false;
    if opened.get_text() != initial {
        println!("  VIOLATES: opened text differs from the file");
        failed = true;
    }
    let mut client = ClientDoc::new(initial);
    for (i, e) in r["edits"].as_array().cloned().unwrap_or_default().iter().enumerate() {
        let text = e["text"].as_str().unwrap_or("");
        let range = e["range"].as_array().map(|r| {
            let g = |k: usize| r[k].as_u64().unwrap_or(0) as u32;
            (
                Pos {
                    line: g(0),
                    character: g(1),
                },
                Pos {
                    line: g(2),
                    character: g(3),
                },
            )
        });
        let before = client.text().unwrap_or_default();
        let verdict = match range {
            None => Verdict::MustApply(text.encode_utf16().collect()),
            Some((s, en)) => client.judge(s, en, text),
        };
        let snapshot = docs
            .get_text_document(&uri)
            .unwrap_or_else(|e| machinery_failure(&format!("{e}")));
        let out = step(&docs, &uri, &snapshot, &event_of(range, text));
        let model = match &verdict {
            Verdict::MustApply(u) => format!("must apply -> {:?}", String::from_utf16_lossy(u)),
            Verdict::MustReject(w) => format!("must reject ({w})"),
            Verdict::Either(u, w) => {
                format!("reject or -> {:?} ({w})", String::from_utf16_lossy(u))
            }
        };
        println!("edit {i}: on {before:?} {e}");
        println!("  model : {model}");
        match &out {
            Outcome::Accepted(_, t) => println!("  server: accepted -> {t:?}"),
            Outcome::Rejected(err, t) => println!("  server: rejected ({err}); text {t:?}"),
            Outcome::Panicked(m, l, t) => println!("  server: PANIC {m} at {l}; text {t:?}"),
        }
        match shape(&before, &verdict, &out) {
            Some((k, what)) => {
                println!("  VIOLATES [{k}|{}]: {what}", cause(&client, range, text));
                failed = true;
                break;
            }
            None => {
                client = ClientDoc::new(out.server_text());
            }
        }
    }
    let _ = std::fs::remove_dir_all(&dir);
    if failed {
        println!("replay: still violates");
        1
    } else {
        println!("replay: conforms");
        0
    }
}

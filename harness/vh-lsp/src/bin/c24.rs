//! C24 — LSP compilation scheduling neither hangs nor drops edits.
//!
//! E-sched on the REAL server: a real `ServerState` (real worker thread, real crossbeam channel,
//! real tokio `Notify`, real atomics, real `parse_project` on a tiny std-less library), the real
//! notification handlers polled cooperatively on one task thread by a small executor (as tower-lsp
//! polls all in-flight handler futures from one task), the worker on its own thread. The
//! cfg-guarded points of hook H5 (before every access to is_compiling / retrigger_compilation /
//! the request channel / finished_compilation / last_compilation_state, and before every
//! retrigger poll inside the compiler) serialise the two threads; the explorer
//! (vhcore::sched) runs EVERY interleaving of those points within the preemption bound, and every
//! order in which ready handler futures are polled / client events are issued.
//!
//! One execution = one child process (`c24 exec <script> <choices>`), so global state, leaked
//! threads and hangs are contained.
use serde::{Deserialize, Serialize};
use serde_json::json;
use std::path::{Path, PathBuf};
use std::sync::atomic::{AtomicBool, Ordering};
use std::sync::Arc;
use sway_lsp::server_state::ServerState;
use tower_lsp::LanguageServer;
use vh_lsp::lspsched::{self, HandlerFut, RunCfg, TraceEv};
use vhcore::sched::{Alt, Bounds, Point};

fn main() {
    let a = vhcore::parse_args();
    let code = match a.cmd.as_str() {
        "exec" => exec_child(&a.rest),
        "check" => run(&a),
        "replay" => replay(&a),
        "modeltest" => modeltest(&a.rest),
        "flushdemo" => flushdemo(),
        "modelonly" => modelonly(&a.rest),
        _ => vhcore::machinery_failure("usage: c24 check C24 --tier quick|thorough"),
    };
    std::process::exit(code);
}

// ---------------------------------------------------------------------------------------------
// Scripts

#[derive(Clone, Copy, Debug, PartialEq, Eq, Serialize, Deserialize)]
enum Ev {
    Open,
    Change,
    Save,
    Wait,
}

fn script_name(s: &[Ev]) -> String {
    s.iter()
        .map(|e| match e {
            Ev::Open => "open",
            Ev::Change => "change",
            Ev::Save => "save",
            Ev::Wait => "wait",
        })
        .collect::<Vec<_>>()
        .join(">")
}

fn parse_script(s: &str) -> Vec<Ev> {
    s.split('>')
        .map(|t| match t {
            "open" => Ev::Open,
            "change" => Ev::Change,
            "save" => Ev::Save,
            "wait" => Ev::Wait,
            _ => vhcore::machinery_failure("bad script"),
        })
        .collect()
}

/// All scripts `open` followed by 1..=n events over {change, save, wait}.
fn scripts(n: usize) -> Vec<Vec<Ev>> {
    let mut out = vec![vec![Ev::Open]];
    for seq in vhcore::enumerate::sequences_upto(3, n) {
        if seq.is_empty() {
            continue;
        }
        let mut s = vec![Ev::Open];
        s.extend(seq.iter().map(|i| [Ev::Change, Ev::Save, Ev::Wait][*i]));
        out.push(s);
    }
    out
}

fn text_of_version(v: i32) -> String {
    format!("library;\n\npub fn version_{v}() -> u64 {{\n    let unused_v{v} = {v};\n    {v}\n}}\n")
}

#[derive(Serialize, Deserialize, Debug, Default)]
struct ExecResult {
    points: Vec<(Vec<(String, u32)>, usize)>, // (alts (label, preempt cost), chosen)
    trace: Vec<TraceEv>,
    pending_handlers: Vec<String>,
    verdicts: Vec<(String, String)>,
    diagnostics: Vec<String>,
    terminal: String,
}

fn exec_child(args: &[String]) -> i32 {
    let script = parse_script(&args[0]);
    let prefix: Vec<usize> = serde_json::from_str(args.get(1).map(|s| s.as_str()).unwrap_or("[]")).unwrap();
    let work = PathBuf::from(args.get(2).cloned().unwrap_or_else(|| "/verif/work/C24/x".into()));
    let follow: Option<Vec<String>> = args.get(3).and_then(|s| serde_json::from_str(s).ok());
    let _ = std::fs::remove_dir_all(&work);
    let proj = work.join("proj");
    std::fs::create_dir_all(proj.join("src")).unwrap();
    std::fs::write(
        proj.join("Forc.toml"),
        "[project]\nauthors = [\"verif\"]\nentry = \"lib.sw\"\nlicense = \"Apache-2.0\"\nname = \"c24proj\"\nimplicit-std = false\n\n[dependencies]\n",
    )
    .unwrap();
    let file = proj.join("src").join("lib.sw");
    std::fs::write(&file, text_of_version(1)).unwrap();
    std::env::set_var("HOME", &work);
    std::env::set_var("TMPDIR", work.join("tmp"));
    std::fs::create_dir_all(work.join("tmp")).unwrap();

    lspsched::install();
    let state = Arc::new(ServerState::default());
    let uri = lsp_types::Url::from_file_path(&file).unwrap();
    let sc = script.clone();
    let u0 = uri.clone();
    let mut version = 1i32;
    let factory: lspsched::EventFactory = Box::new(move |idx: usize, st: Arc<ServerState>| -> HandlerFut {
        let u = u0.clone();
        match sc[idx] {
            Ev::Open => Box::pin(async move {
                st.did_open(lsp_types::DidOpenTextDocumentParams {
                    text_document: lsp_types::TextDocumentItem { uri: u, language_id: "sway".into(), version: 1, text: text_of_version(1) },
                })
                .await
            }),
            Ev::Change => {
                version += 1;
                let v = version;
                Box::pin(async move {
                    st.did_change(lsp_types::DidChangeTextDocumentParams {
                        text_document: lsp_types::VersionedTextDocumentIdentifier { uri: u, version: v },
                        content_changes: vec![lsp_types::TextDocumentContentChangeEvent { range: None, range_length: None, text: text_of_version(v) }],
                    })
                    .await
                })
            }
            Ev::Save => Box::pin(async move {
                st.did_save(lsp_types::DidSaveTextDocumentParams { text_document: lsp_types::TextDocumentIdentifier { uri: u }, text: None }).await
            }),
            Ev::Wait => Box::pin(async move { st.wait_for_parsing().await }),
        }
    });
    let labels: Vec<String> = script.iter().map(|e| format!("{e:?}")).collect();
    let out = lspsched::run(
        RunCfg { labels, prefix, issue_only_at_quiescence: false, follow },
        state.clone(),
        factory,
        &mut |_, _| {},
    );
    if let Some(e) = &out.error {
        println!("@@WATCHDOG {e}");
        return 2;
    }
    let mut res = ExecResult { points: out.points.clone(), trace: out.trace.clone(), terminal: out.terminal.clone(), ..Default::default() };
    res.pending_handlers = out.pending_handlers.clone();
    res.verdicts = judge(&script, &res);
    // secondary observation: diagnostics of the session
    if let Ok((_, session)) = state.uri_and_session_from_workspace(&uri) {
        for (p, d) in session.diagnostics.read().iter() {
            for w in d.warnings.iter().chain(d.errors.iter()) {
                res.diagnostics.push(format!("{}: {}", p.file_name().map(|s| s.to_string_lossy().to_string()).unwrap_or_default(), w.message));
            }
        }
    }
    println!("@@RESULT {}", serde_json::to_string(&res).unwrap());
    lspsched::teardown(&state);
    0
}

/// Oracle over one terminal execution. Returns (class key, description) per violation.
fn judge(script: &[Ev], r: &ExecResult) -> Vec<(String, String)> {
    let mut out = vec![];
    // (a) every waiting request/notification returns once nothing is running or pending
    if !r.pending_handlers.is_empty() {
        out.push((
            "C24|hang|handler-waits-forever-at-quiescence".to_string(),
            format!("quiescent ({}), but {} still wait(s) in wait_for_parsing", r.terminal, r.pending_handlers.join(", ")),
        ));
    }
    // (b) the last completed compilation started after the last edit was written
    let requests = r.trace.iter().filter(|e| e.kind == "grant" && e.label == "T:send").count();
    if requests > 0 {
        // arrival at T:load_compiling of the last didChange (its text has been written by then)
        let last_edit = r
            .trace
            .iter()
            .filter(|e| e.kind == "arrive" && e.label == "T:load_compiling" && e.version.is_some())
            .map(|e| e.seq)
            .last()
            .unwrap_or(0);
        let last_success = r.trace.iter().filter(|e| e.kind == "grant" && e.label == "W:finish_success").map(|e| e.seq).last();
        match last_success {
            None => out.push((
                "C24|stale|no-compilation-completed".to_string(),
                format!("{requests} compilation request(s) were sent but no compilation completed before quiescence"),
            )),
            Some(f) => {
                let start = r.trace.iter().filter(|e| e.kind == "grant" && e.label == "W:got_request" && e.seq < f).map(|e| e.seq).last().unwrap_or(0);
                if start < last_edit {
                    let edits = script.iter().filter(|e| **e == Ev::Change).count();
                    out.push((
                        "C24|stale|last-completed-compilation-predates-last-edit".to_string(),
                        format!("the last completed compilation started at trace #{start}, before the last of {edits} edit(s) was written (#{last_edit}); the newer request was cancelled or never compiled"),
                    ));
                }
            }
        }
    }
    out
}

// ---------------------------------------------------------------------------------------------
// Parent: explorer over child executions

fn run_child(script: &[Ev], prefix: &[usize], work: &Path) -> Result<ExecResult, String> {
    run_child_follow(script, prefix, work, None)
}

fn run_child_follow(script: &[Ev], prefix: &[usize], work: &Path, follow: Option<&[String]>) -> Result<ExecResult, String> {
    let exe = std::env::current_exe().unwrap();
    let mut child = std::process::Command::new(exe)
        .arg("exec")
        .arg(script_name(script))
        .arg(serde_json::to_string(prefix).unwrap())
        .arg(work)
        .arg(follow.map(|f| serde_json::to_string(f).unwrap()).unwrap_or_else(|| "null".into()))
        .stdout(std::process::Stdio::piped())
        .stderr(std::process::Stdio::null())
        .spawn()
        .map_err(|e| e.to_string())?;
    let start = std::time::Instant::now();
    let out = loop {
        match child.try_wait() {
            Ok(Some(_)) => break child.wait_with_output().map_err(|e| e.to_string())?,
            Ok(None) => {
                if start.elapsed() > std::time::Duration::from_secs(1500) {
                    let _ = child.kill();
                    let _ = child.wait();
                    return Err("child timed out after 1500 s".into());
                }
                std::thread::sleep(std::time::Duration::from_millis(5));
            }
            Err(e) => return Err(e.to_string()),
        }
    };
    let _ = std::fs::remove_dir_all(work);
    let text = String::from_utf8_lossy(&out.stdout);
    for l in text.lines() {
        if let Some(j) = l.strip_prefix("@@RESULT ") {
            return serde_json::from_str(j).map_err(|e| e.to_string());
        }
        if l.starts_with("@@WATCHDOG") || l.starts_with("@@DIVERGENCE") {
            return Err(l.to_string());
        }
    }
    Err(format!("child produced no result (status {:?})", out.status))
}

static COUNTER: std::sync::atomic::AtomicU64 = std::sync::atomic::AtomicU64::new(0);
static FAILED: AtomicBool = AtomicBool::new(false);

fn run(a: &vhcore::Args) -> i32 {
    let mut rep = vhcore::Reporter::from_args(a, "model_checking");
    let thorough = a.tier == vhcore::Tier::Thorough;
    let work = vhcore::work_dir("C24");
    let scs = scripts(if thorough { 3 } else { 2 });
    let bound = if thorough { 2 } else { 1 };
    let mut total_exec = 0u64;
    let mut total_points = 0u64;
    let mut states = vhcore::Distinct::default();
    let mut outcomes = vhcore::Distinct::default();
    let mut per_script = vec![];
    let mut exhaustive = true;
    for sc in &scs {
        let work2 = work.clone();
        let sc2 = sc.clone();
        let runf = move |prefix: &[usize]| -> (Vec<Point>, Option<ExecResult>) {
            let id = COUNTER.fetch_add(1, Ordering::Relaxed);
            match run_child(&sc2, prefix, &work2.join(format!("e{id}"))) {
                Ok(r) => {
                    let pts = r
                        .points
                        .iter()
                        .map(|(alts, chosen)| Point {
                            alts: alts.iter().map(|(l, c)| Alt { label: l.clone(), preempt: *c, fault: 0 }).collect(),
                            chosen: *chosen,
                        })
                        .collect();
                    (pts, Some(r))
                }
                Err(e) => {
                    if !FAILED.swap(true, Ordering::SeqCst) {
                        eprintln!("[C24] machinery failure in script {}: {e} (prefix {:?})", script_name(&sc2), prefix);
                    }
                    (prefix.iter().map(|c| Point { alts: (0..=*c).map(|_| Alt { label: "?".into(), preempt: 0, fault: 0 }).collect(), chosen: *c }).collect(), None)
                }
            }
        };
        let mut viols: Vec<(String, String, serde_json::Value)> = vec![];
        let mut sample = None;
        let name = script_name(sc);
        let mut visit = |choices: &[usize], points: &[Point], r: Option<ExecResult>| {
            let Some(r) = r else { return };
            for e in &r.trace {
                if e.kind == "grant" {
                    states.add(&(e.label.clone(), e.flags.clone(), e.version));
                }
            }
            let sched: Vec<String> = points.iter().map(|p| p.alts[p.chosen].label.clone()).collect();
            outcomes.add(&(name.clone(), r.verdicts.clone(), r.diagnostics.clone(), r.terminal.clone()));
            for (k, w) in &r.verdicts {
                if !viols.iter().any(|(k2, _, _)| k2 == k) {
                    viols.push((k.clone(), w.clone(), json!({"script": name, "choices": choices, "schedule": sched, "diagnostics": r.diagnostics, "terminal": r.terminal})));
                }
            }
            if sample.is_none() {
                sample = Some(json!({"script": name, "schedule": sched, "terminal": r.terminal, "diagnostics": r.diagnostics}));
            }
        };
        let stats = vhcore::sched::explore(Bounds { preempt: bound, fault: 0 }, a.jobs, if thorough { 6000 } else { 400 }, &runf, &mut visit);
        if FAILED.load(Ordering::SeqCst) {
            vhcore::machinery_failure("an execution did not complete under the scheduler (see stderr)");
        }
        if stats.capped {
            exhaustive = false;
            rep.cap(&format!("script {name}: execution cap hit at {} executions (preemption bound {bound})", stats.executions));
        }
        eprintln!("[C24] {name}: executions={} points={}", stats.executions, stats.points);
        total_exec += stats.executions;
        total_points += stats.points;
        per_script.push(json!({"script": name, "executions": stats.executions, "steps": stats.points, "max_depth": stats.max_depth}));
        if let Some(s) = sample {
            rep.sample(s);
        }
        for (k, w, j) in viols {
            rep.violation(&format!("{k}|{}", shape(sc)), &format!("[{name}] {w}"), j);
        }
    }
    // ---- E-model: unbounded exploration of the protocol model, bound to the code by replay ----
    let mut model_info = vec![];
    let mut model_replays = 0u64;
    let mut model_conforms = true;
    let calib = run_child(&[Ev::Open], &[], &work.join("calib"));
    let abort_checks = match &calib {
        Ok(r) => {
            let labels: Vec<&str> = r.trace.iter().filter(|e| e.kind == "grant" && e.tid == 1).map(|e| e.label.as_str()).collect();
            let from = labels.iter().position(|l| *l == "W:set_compiling").unwrap_or(0);
            let to = labels.iter().position(|l| l.starts_with("W:finish_")).unwrap_or(labels.len());
            labels[from..to].iter().filter(|l| **l == "W:abort_check").count() as u8
        }
        Err(e) => vhcore::machinery_failure(&format!("calibration run failed: {e}")),
    };
    // second calibration: a compilation of a text that was already compiled successfully (open,
    // then save): let the worker run as soon as it can, so that two compilations happen in a row
    let abort_checks_cached = {
        let sc2 = [Ev::Open, Ev::Save];
        let r0 = run_child(&sc2, &[], &work.join("calib2a")).unwrap_or_else(|e| vhcore::machinery_failure(&format!("calibration run 2a failed: {e}")));
        let mut prefix: Vec<usize> = vec![];
        for (alts, _) in &r0.points {
            if let Some(k) = alts.iter().position(|(l, _)| l == "W:recv") {
                prefix.push(k);
                break;
            }
            prefix.push(0);
        }
        let r = run_child(&sc2, &prefix, &work.join("calib2b")).unwrap_or_else(|e| vhcore::machinery_failure(&format!("calibration run 2b failed: {e}")));
        let labels: Vec<&str> = r.trace.iter().filter(|e| e.kind == "grant" && e.tid == 1).map(|e| e.label.as_str()).collect();
        let starts: Vec<usize> = labels.iter().enumerate().filter(|(_, l)| **l == "W:set_compiling").map(|(i, _)| i).collect();
        match starts.get(1) {
            Some(from) => {
                let to = labels[*from..].iter().position(|l| l.starts_with("W:finish_")).map(|p| p + from).unwrap_or(labels.len());
                labels[*from..to].iter().filter(|l| **l == "W:abort_check").count() as u8
            }
            None => abort_checks,
        }
    };
    eprintln!("[C24] calibrated retrigger polls per compilation: full={abort_checks} cached={abort_checks_cached}");
    let model_scripts: Vec<&Vec<Ev>> = scs.iter().filter(|s| s.len() <= if thorough { 4 } else { 3 }).collect();
    for sc in model_scripts {
        let name = script_name(sc);
        let m = vh_lsp::c24model::Model {
            script: sc
                .iter()
                .map(|e| match e {
                    Ev::Open => vh_lsp::c24model::Ev::Open,
                    Ev::Change => vh_lsp::c24model::Ev::Change,
                    Ev::Save => vh_lsp::c24model::Ev::Save,
                    Ev::Wait => vh_lsp::c24model::Ev::Wait,
                })
                .collect(),
            abort_checks,
            abort_checks_cached,
        };
        let ex = vh_lsp::c24model::explore(&m, if thorough { 400 } else { 12 });
        let mut paths: Vec<(Option<Vec<&'static str>>, Vec<String>)> = ex.witnesses.iter().map(|(v, p)| (Some(v.clone()), p.clone())).collect();
        paths.extend(ex.edge_cover.iter().map(|p| (None, p.clone())));
        let results: Vec<Result<ExecResult, String>> = vhcore::par_map_idx(paths.len(), a.jobs, |i| {
            let id = COUNTER.fetch_add(1, Ordering::Relaxed);
            run_child_follow(sc, &[], &work.join(format!("m{id}")), Some(&paths[i].1))
        });
        let mut diverged = 0usize;
        for ((want, path), r) in paths.iter().zip(results) {
            model_replays += 1;
            match r {
                Err(e) => {
                    diverged += 1;
                    if model_conforms {
                        eprintln!("[C24] MODEL-DIVERGENCE on script {name}: {e}");
                    }
                    model_conforms = false;
                }
                Ok(res) => {
                    if res.points.len() != path.len() {
                        diverged += 1;
                        if model_conforms {
                            eprintln!("[C24] MODEL-DIVERGENCE on script {name}: model trace has {} steps, the server made {}", path.len(), res.points.len());
                        }
                        model_conforms = false;
                        continue;
                    }
                    let real: Vec<String> = res.verdicts.iter().map(|(k, _)| k.clone()).collect();
                    if let Some(w) = want {
                        let norm = |k: &str| -> &'static str {
                            if k.contains("|hang|") {
                                "hang"
                            } else if k.contains("no-compilation-completed") {
                                "stale:no-compilation-completed"
                            } else {
                                "stale:last-completed-compilation-predates-last-edit"
                            }
                        };
                        let mut rv: Vec<&'static str> = real.iter().map(|k| norm(k)).collect();
                        rv.sort();
                        let mut wv = w.clone();
                        wv.sort();
                        if rv != wv {
                            diverged += 1;
                            if model_conforms {
                                eprintln!("[C24] MODEL-DIVERGENCE on script {name}: model verdicts {wv:?}, server verdicts {rv:?}");
                            }
                            model_conforms = false;
                            continue;
                        }
                    }
                    // a model counterexample confirmed by its replay on the real server
                    for (k, wtxt) in &res.verdicts {
                        rep.violation(
                            &format!("{k}|{}", shape(sc)),
                            &format!("[{name}] (found by the unbounded model, confirmed by replay on the server) {wtxt}"),
                            json!({"script": name, "follow": path, "terminal": res.terminal}),
                        );
                    }
                }
            }
        }
        eprintln!("[C24] model {name}: states={} transitions={} terminals={} replayed={} diverged={diverged}", ex.states, ex.transitions, ex.terminals, paths.len());
        model_info.push(json!({"script": name, "model_states": ex.states, "model_transitions": ex.transitions, "model_terminal_states": ex.terminals, "traces_replayed_on_server": paths.len(), "diverged": diverged, "edge_cover_complete": ex.edge_cover.len() < if thorough { 400 } else { 12 }}));
    }
    rep.set("model", json!({"abort_checks_per_compile_calibrated": abort_checks, "abort_checks_per_cached_compile_calibrated": abort_checks_cached, "conforms": model_conforms, "per_script": model_info}));
    if !model_conforms {
        rep.cap("E-model does not conform to the server on at least one replayed trace (MODEL-DIVERGENCE): its results are ignored; the verdict rests on E-sched alone");
    }
    total_exec += model_replays;
    if outcomes.len() < 2 {
        vhcore::machinery_failure("vacuous: fewer than 2 distinct terminal observations");
    }
    rep.set("evaluations", total_exec);
    rep.set("states", states.len() as u64);
    rep.set("transitions", total_points);
    rep.set("traces_validated_against_impl", total_exec);
    rep.set("distinct_nontrivial", outcomes.len() as u64);
    rep.set("preemption_bound", bound);
    rep.set("scripts", json!(per_script));
    rep.set("rule", "stateless DFS over all interleavings of the H5 points of the real server's task thread and worker thread within the preemption bound, and over every poll/issue order of handler futures (cost 0); every execution is the real code, so every trace is validated against the implementation by construction; states = distinct (point label, observed flags/queue, version) triples; distinct_nontrivial = distinct terminal observations");
    rep.set("exhaustive", exhaustive);
    rep.assume("handler-vs-handler interleaving is cooperative (tower-lsp polls handler futures from one task); handler-vs-worker interleaving is preemptive at H5 points; sequential consistency at that granularity is exact for SeqCst atomics, crossbeam channel operations and Notify calls");
    rep.assume("`wait_for_parsing` reads is_compiling and last_compilation_state in one step (one `&&` expression; no additive hook can separate them)");
    rep.finish()
}

/// Script shape for the class key: which event kinds occur after `open`.
fn shape(sc: &[Ev]) -> String {
    let mut kinds: Vec<&str> = vec![];
    for e in sc.iter().skip(1) {
        let k = match e {
            Ev::Change => "change",
            Ev::Save => "save",
            Ev::Wait => "wait",
            Ev::Open => "open",
        };
        if !kinds.contains(&k) {
            kinds.push(k);
        }
    }
    kinds.sort();
    if kinds.is_empty() {
        "open-only".into()
    } else {
        kinds.join("+")
    }
}

fn replay(a: &vhcore::Args) -> i32 {
    let path = a.replay.clone().unwrap_or_else(|| vhcore::machinery_failure("replay needs a file"));
    let v: serde_json::Value = serde_json::from_str(&std::fs::read_to_string(path).unwrap()).unwrap();
    let r = &v["replay"];
    let sc = parse_script(r["script"].as_str().unwrap());
    let choices: Vec<usize> = r["choices"].as_array().unwrap().iter().map(|x| x.as_u64().unwrap() as usize).collect();
    let work = vhcore::work_dir("C24-replay");
    let mut first: Option<Vec<String>> = None;
    for round in 0..2 {
        match run_child(&sc, &choices, &work.join(format!("r{round}"))) {
            Err(e) => {
                println!("replay failed: {e}");
                return 2;
            }
            Ok(res) => {
                let obs: Vec<String> = res.trace.iter().filter(|e| e.kind == "grant").map(|e| format!("{}:{}:{}", e.tid, e.label, e.flags)).collect();
                if round == 0 {
                    for (alts, c) in &res.points {
                        println!("  {}", alts[*c].0);
                    }
                    for (k, w) in &res.verdicts {
                        println!("VERDICT {k}: {w}");
                    }
                    first = Some(obs);
                    if res.verdicts.is_empty() {
                        println!("no violation on this schedule");
                        return 0;
                    }
                } else if first.as_ref() != Some(&obs) {
                    println!("NON-DETERMINISTIC replay: observations differ between two runs of the same schedule");
                    return 2;
                }
            }
        }
    }
    1
}

/// Debug aid: explore the model of one script and replay a few of its traces on the server.
fn modeltest(args: &[String]) -> i32 {
    let sc = parse_script(&args[0]);
    let abort_checks: u8 = args.get(1).and_then(|s| s.parse().ok()).unwrap_or(1);
    let abort_checks_cached: u8 = args.get(2).and_then(|s| s.parse().ok()).unwrap_or(abort_checks);
    let m = vh_lsp::c24model::Model {
        script: sc
            .iter()
            .map(|e| match e {
                Ev::Open => vh_lsp::c24model::Ev::Open,
                Ev::Change => vh_lsp::c24model::Ev::Change,
                Ev::Save => vh_lsp::c24model::Ev::Save,
                Ev::Wait => vh_lsp::c24model::Ev::Wait,
            })
            .collect(),
        abort_checks,
        abort_checks_cached,
    };
    let ex = vh_lsp::c24model::explore(&m, 14);
    println!("states={} transitions={} terminals={} witnesses={} cover={}", ex.states, ex.transitions, ex.terminals, ex.witnesses.len(), ex.edge_cover.len());
    let work = vhcore::work_dir("C24-modeltest");
    let mut paths: Vec<(String, Vec<String>)> = ex.witnesses.iter().map(|(v, p)| (format!("{v:?}"), p.clone())).collect();
    paths.extend(ex.edge_cover.iter().take(14).map(|p| ("cover".to_string(), p.clone())));
    for (i, (what, p)) in paths.iter().enumerate() {
        match run_child_follow(&sc, &[], &work.join(format!("m{i}")), Some(p)) {
            Ok(r) => println!("{what}: model steps {} server steps {} server verdicts {:?}", p.len(), r.points.len(), r.verdicts.iter().map(|v| v.0.clone()).collect::<Vec<_>>()),
            Err(e) => println!("{what}: DIVERGENCE {e}\n   model path: {}", p.join(" ")),
        }
    }
    0
}

/// Debug aid / demonstration: after `write_changes_to_file` returns, is the text on disk?
fn flushdemo() -> i32 {
    let work = vhcore::work_dir("C24-flushdemo");
    let file = work.join("f.sw");
    std::fs::write(&file, "library;\n").unwrap();
    let rt = tokio::runtime::Builder::new_multi_thread().worker_threads(2).enable_all().build().unwrap();
    let uri = lsp_types::Url::from_file_path(&file).unwrap();
    let docs = sway_lsp::core::document::Documents::new();
    let mut stale = 0;
    let n = 300;
    rt.block_on(async {
        docs.handle_open_file(&uri).await;
        for i in 0..n {
            let text = format!("library;\n// version {i}\n{}", "x".repeat(200 + i));
            let ch = vec![lsp_types::TextDocumentContentChangeEvent { range: None, range_length: None, text: text.clone() }];
            docs.write_changes_to_file(&uri, &ch).await.unwrap();
            let on_disk = std::fs::read_to_string(&file).unwrap_or_default();
            if on_disk != text {
                stale += 1;
            }
        }
    });
    println!("write_changes_to_file returned {n} times; the file on disk did not contain the new text {stale} times");
    if stale > 0 {
        1
    } else {
        0
    }
}

/// Debug aid: explore the (fixed-protocol) model alone for all scripts up to n events.
fn modelonly(args: &[String]) -> i32 {
    use vh_lsp::c24model as mf;
    let n: usize = args.first().and_then(|s| s.parse().ok()).unwrap_or(3);
    let checks: u8 = args.get(1).and_then(|s| s.parse().ok()).unwrap_or(6);
    let mut bad = 0;
    for sc in scripts(n) {
        let m = mf::Model {
            script: sc.iter().map(|e| match e { Ev::Open => mf::Ev::Open, Ev::Change => mf::Ev::Change, Ev::Save => mf::Ev::Save, Ev::Wait => mf::Ev::Wait }).collect(),
            abort_checks: checks,
            abort_checks_cached: args.get(2).and_then(|s| s.parse().ok()).unwrap_or(checks),
        };
        let ex = mf::explore(&m, 0);
        let vs: Vec<String> = ex.witnesses.iter().map(|(v, _)| format!("{v:?}")).collect();
        let violating = ex.witnesses.iter().any(|(v, _)| !v.is_empty());
        if violating {
            bad += 1;
        }
        println!("{} states={} transitions={} terminals={} verdict-sets={}", script_name(&sc), ex.states, ex.transitions, ex.terminals, vs.join(" "));
        if violating {
            for (v, p) in &ex.witnesses {
                if !v.is_empty() {
                    println!("   {v:?}: {}", p.join(" "));
                }
            }
        }
    }
    println!("scripts with violating terminal states: {bad}");
    0
}

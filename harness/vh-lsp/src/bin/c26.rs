//! C26 — incremental (LSP) compilation agrees with a fresh compilation.
//!
//! E-bfs over edit histories of a std-less library (`lib.sw`, `a.sw`, `b.sw`, and `c.sw` which an
//! edit attaches later): every history of ≤ N edits from a 16-entry alphabet (append/delete a function in each module,
//! rename a function used across modules, introduce/fix a syntax error, introduce/fix a type
//! error, change a struct field type used in another module, add a `use`). Each history is
//! driven through the REAL server (real didOpen/didChange handlers, real compilation thread,
//! module caches, garbage collection of the edited module) on the controlled scheduler of
//! `vh_lsp::lspsched` with ONE fixed race-free schedule — a client event is issued only at
//! quiescence — so C24's races cannot leak in. After every edit the server's diagnostics and
//! token map are compared with those of a FRESH server opened on the same three texts.
use serde::{Deserialize, Serialize};
use serde_json::json;
use std::collections::{BTreeMap, BTreeSet};
use std::path::{Path, PathBuf};
use std::sync::{Arc, Mutex};
use sway_lsp::server_state::ServerState;
use tower_lsp::LanguageServer;
use vh_lsp::lspsched::{self, HandlerFut, RunCfg};

fn main() {
    let a = vhcore::parse_args();
    let code = match a.cmd.as_str() {
        "hist" => child_hist(&a.rest),
        "check" => run(&a),
        "replay" => replay(&a),
        _ => vhcore::machinery_failure("usage: c26 check C26 --tier quick|thorough"),
    };
    std::process::exit(code);
}

// ---------------------------------------------------------------------------------------------
// The project and the edit alphabet

#[derive(Clone, Debug, PartialEq, Eq, Hash, PartialOrd, Ord, Serialize, Deserialize)]
struct Texts {
    lib: String,
    a: String,
    b: String,
    /// `c.sw` exists on disk from the start but is only attached to the module tree by an edit
    #[serde(default)]
    c: String,
}

fn initial() -> Texts {
    Texts {
        lib: "library;\n\nmod a;\nmod b;\n\nuse a::fa;\nuse a::P;\n\npub fn top() -> u64 {\n    let p = P { x: 1, y: 2 };\n    let q = b::fb();\n    fa(p.x)\n}\n".into(),
        a: "library;\n\npub struct P {\n    pub x: u64,\n    pub y: u64,\n}\n\npub fn fa(v: u64) -> u64 {\n    v\n}\n".into(),
        b: "library;\n\npub fn fb() -> u64 {\n    let unused_b = 3;\n    7\n}\n".into(),
        c: "library;\n\npub fn fc() -> u64 {\n    5\n}\n".into(),
    }
}

const EDITS: [&str; 16] = [
    "lib+fn", "a+fn", "b+fn", "a-fn", "a:rename-fa", "b:break-syntax", "b:fix-syntax", "lib:break-type", "lib:fix-type", "a:field-type", "lib+use", "b:edit-body",
    // the module graph itself changes: a module attached (detached) after the first compilation,
    // and edits of that late module
    "lib+mod-c", "lib-mod-c", "c:ret-bool", "c:ret-u64",
];

/// Apply edit `e`; returns (file changed, new texts) or None when the edit does not apply.
fn apply(t: &Texts, e: usize, step: usize) -> Option<(usize, Texts)> {
    let mut n = t.clone();
    let file = match EDITS[e] {
        "lib+fn" => {
            n.lib.push_str(&format!("\npub fn extra_lib_{step}() -> u64 {{\n    let n = {step};\n    top()\n}}\n"));
            0
        }
        "a+fn" => {
            n.a.push_str(&format!("\npub fn extra_a_{step}(q: u64) -> u64 {{\n    fa(q)\n}}\n"));
            1
        }
        "b+fn" => {
            n.b.push_str(&format!("\npub fn extra_b_{step}() -> u64 {{\n    fb()\n}}\n"));
            2
        }
        "a-fn" => {
            let i = n.a.rfind("\npub fn extra_a_")?;
            n.a.truncate(i);
            1
        }
        "a:rename-fa" => {
            if !n.a.contains("pub fn fa(") {
                return None;
            }
            n.a = n.a.replace("pub fn fa(", "pub fn fa_renamed(");
            1
        }
        "b:break-syntax" => {
            if n.b.contains("-> u64 {{") || !n.b.contains("pub fn fb() -> u64 {") {
                return None;
            }
            n.b = n.b.replacen("pub fn fb() -> u64 {", "pub fn fb( -> u64 {", 1);
            2
        }
        "b:fix-syntax" => {
            if !n.b.contains("pub fn fb( -> u64 {") {
                return None;
            }
            n.b = n.b.replacen("pub fn fb( -> u64 {", "pub fn fb() -> u64 {", 1);
            2
        }
        "lib:break-type" => {
            if !n.lib.contains("    fa(p.x)\n") {
                return None;
            }
            n.lib = n.lib.replacen("    fa(p.x)\n", "    fa(true)\n", 1);
            0
        }
        "lib:fix-type" => {
            if !n.lib.contains("    fa(true)\n") {
                return None;
            }
            n.lib = n.lib.replacen("    fa(true)\n", "    fa(p.x)\n", 1);
            0
        }
        "a:field-type" => {
            if !n.a.contains("pub x: u64,") {
                return None;
            }
            n.a = n.a.replacen("pub x: u64,", "pub x: bool,", 1);
            1
        }
        "lib+use" => {
            if n.lib.contains("use b::fb;") {
                return None;
            }
            n.lib = n.lib.replacen("use a::P;\n", "use a::P;\nuse b::fb;\n", 1);
            0
        }
        "b:edit-body" => {
            if !n.b.contains("    7\n") {
                return None;
            }
            n.b = n.b.replacen("    7\n", "    8\n", 1);
            2
        }
        "lib+mod-c" => {
            if n.lib.contains("mod c;") {
                return None;
            }
            n.lib = n.lib.replacen("mod b;\n", "mod b;\nmod c;\n", 1);
            n.lib.push_str("\npub fn uses_c() -> u64 {\n    c::fc()\n}\n");
            0
        }
        "lib-mod-c" => {
            if !n.lib.contains("mod c;") {
                return None;
            }
            n.lib = n.lib.replacen("mod b;\nmod c;\n", "mod b;\n", 1);
            n.lib = n.lib.replacen("\npub fn uses_c() -> u64 {\n    c::fc()\n}\n", "", 1);
            0
        }
        "c:ret-bool" => {
            if !n.c.contains("pub fn fc() -> u64 {\n    5\n") {
                return None;
            }
            n.c = n.c.replacen("pub fn fc() -> u64 {\n    5\n", "pub fn fc() -> bool {\n    true\n", 1);
            3
        }
        "c:ret-u64" => {
            if !n.c.contains("pub fn fc() -> bool {\n    true\n") {
                return None;
            }
            n.c = n.c.replacen("pub fn fc() -> bool {\n    true\n", "pub fn fc() -> u64 {\n    5\n", 1);
            3
        }
        _ => unreachable!(),
    };
    if n == *t {
        return None;
    }
    Some((file, n))
}

fn file_name(i: usize) -> &'static str {
    ["lib.sw", "a.sw", "b.sw", "c.sw"][i]
}

fn text_of(t: &Texts, i: usize) -> &String {
    [&t.lib, &t.a, &t.b, &t.c][i]
}

// ---------------------------------------------------------------------------------------------
// Child: run one history (or a fresh open) on the real server under the fixed schedule

#[derive(Serialize, Deserialize, Debug, Clone, PartialEq, Eq, Default, Hash)]
struct Obs {
    diagnostics: BTreeSet<String>,
    tokens: BTreeSet<String>,
}

#[derive(Serialize, Deserialize, Debug, Default)]
struct HistOut {
    /// observation after the initial open and after every edit
    obs: Vec<Obs>,
    error: Option<String>,
    pending: Vec<String>,
    points: usize,
}

fn norm_path(p: &Path) -> String {
    p.file_name().map(|s| s.to_string_lossy().to_string()).unwrap_or_default()
}

fn observe(state: &Arc<ServerState>, main_uri: &lsp_types::Url) -> Obs {
    let mut o = Obs::default();
    if let Ok((_, session)) = state.uri_and_session_from_workspace(main_uri) {
        for (p, d) in session.diagnostics.read().iter() {
            for (sev, list) in [("E", &d.errors), ("W", &d.warnings)] {
                for x in list.iter() {
                    o.diagnostics.insert(format!(
                        "{sev} {} {}:{}-{}:{} {}",
                        norm_path(p),
                        x.range.start.line,
                        x.range.start.character,
                        x.range.end.line,
                        x.range.end.character,
                        x.message
                    ));
                }
            }
        }
    }
    for item in state.token_map.iter() {
        let k = item.key();
        o.tokens.insert(format!(
            "{} {}:{}-{}:{} {} {:?}",
            k.path.as_ref().map(|p| norm_path(p)).unwrap_or_default(),
            k.range.start.line,
            k.range.start.character,
            k.range.end.line,
            k.range.end.character,
            k.name,
            item.value().kind
        ));
    }
    o
}

/// args: <work dir> <json: {"start": Texts, "edits": [[file, text]…]}>
fn child_hist(args: &[String]) -> i32 {
    let work = PathBuf::from(&args[0]);
    #[derive(Deserialize)]
    struct Job {
        start: Texts,
        edits: Vec<(usize, String)>,
    }
    let job: Job = serde_json::from_str(&std::fs::read_to_string(&args[1]).unwrap()).unwrap();
    let _ = std::fs::remove_dir_all(&work);
    let proj = work.join("proj");
    std::fs::create_dir_all(proj.join("src")).unwrap();
    std::fs::write(
        proj.join("Forc.toml"),
        "[project]\nauthors = [\"verif\"]\nentry = \"lib.sw\"\nlicense = \"Apache-2.0\"\nname = \"c26proj\"\nimplicit-std = false\n\n[dependencies]\n",
    )
    .unwrap();
    for i in 0..4 {
        std::fs::write(proj.join("src").join(file_name(i)), text_of(&job.start, i)).unwrap();
    }
    std::env::set_var("HOME", &work);
    std::fs::create_dir_all(work.join("tmp")).unwrap();
    std::env::set_var("TMPDIR", work.join("tmp"));
    let uris: Vec<lsp_types::Url> = (0..4).map(|i| lsp_types::Url::from_file_path(proj.join("src").join(file_name(i))).unwrap()).collect();

    // events: open lib; for each edit: (open the file if never opened) + change
    #[derive(Clone)]
    enum E {
        Open(usize, String),
        Change(usize, String, i32),
    }
    let mut events: Vec<(E, bool)> = vec![(E::Open(0, job.start.lib.clone()), true)]; // (event, observe after it)
    let mut opened = [true, false, false, false];
    let mut versions = [1i32, 1, 1, 1];
    let mut cur = [job.start.lib.clone(), job.start.a.clone(), job.start.b.clone(), job.start.c.clone()];
    for (f, text) in &job.edits {
        if !opened[*f] {
            opened[*f] = true;
            events.push((E::Open(*f, cur[*f].clone()), false));
        }
        versions[*f] += 1;
        cur[*f] = text.clone();
        events.push((E::Change(*f, text.clone(), versions[*f]), true));
    }
    let labels: Vec<String> = events
        .iter()
        .map(|(e, _)| match e {
            E::Open(f, _) => format!("open:{}", file_name(*f)),
            E::Change(f, _, v) => format!("change:{}@{v}", file_name(*f)),
        })
        .collect();
    let observe_after: Vec<bool> = events.iter().map(|(_, o)| *o).collect();
    lspsched::install();
    let state = Arc::new(ServerState::default());
    {
        // garbage collection on (the worker collects the edited module before every recompilation)
        let mut cfg = state.config.write();
        cfg.garbage_collection.gc_enabled = true;
    }
    let evs = events.clone();
    let uris2 = uris.clone();
    let factory: lspsched::EventFactory = Box::new(move |i: usize, st: Arc<ServerState>| -> HandlerFut {
        match evs[i].0.clone() {
            E::Open(f, text) => {
                let u = uris2[f].clone();
                Box::pin(async move {
                    st.did_open(lsp_types::DidOpenTextDocumentParams {
                        text_document: lsp_types::TextDocumentItem { uri: u, language_id: "sway".into(), version: 1, text },
                    })
                    .await
                })
            }
            E::Change(f, text, v) => {
                let u = uris2[f].clone();
                Box::pin(async move {
                    st.did_change(lsp_types::DidChangeTextDocumentParams {
                        text_document: lsp_types::VersionedTextDocumentIdentifier { uri: u, version: v },
                        content_changes: vec![lsp_types::TextDocumentContentChangeEvent { range: None, range_length: None, text }],
                    })
                    .await
                })
            }
        }
    });
    let obs: Arc<Mutex<BTreeMap<usize, Obs>>> = Arc::new(Mutex::new(BTreeMap::new()));
    let obs2 = obs.clone();
    let main_uri = uris[0].clone();
    let mut on_q = move |issued: usize, st: &Arc<ServerState>| {
        if issued >= 1 && observe_after[issued - 1] {
            obs2.lock().unwrap().insert(issued, observe(st, &main_uri));
        }
    };
    let out = lspsched::run(RunCfg { labels, prefix: vec![], issue_only_at_quiescence: true, follow: None }, state.clone(), factory, &mut on_q);
    let res = HistOut {
        obs: obs.lock().unwrap().values().cloned().collect(),
        error: out.error.clone(),
        pending: out.pending_handlers.clone(),
        points: out.points.len(),
    };
    println!("@@RESULT {}", serde_json::to_string(&res).unwrap());
    lspsched::teardown(&state);
    0
}

fn run_child(work: &Path, start: &Texts, edits: &[(usize, String)]) -> Result<HistOut, String> {
    std::fs::create_dir_all(work).map_err(|e| e.to_string())?;
    let job = work.with_extension("job.json");
    std::fs::write(&job, serde_json::to_string(&json!({"start": start, "edits": edits})).unwrap()).map_err(|e| e.to_string())?;
    let exe = std::env::current_exe().unwrap();
    let mut child = std::process::Command::new(exe)
        .arg("hist")
        .arg(work)
        .arg(&job)
        .stdout(std::process::Stdio::piped())
        .stderr(std::process::Stdio::null())
        .spawn()
        .map_err(|e| e.to_string())?;
    let start_t = std::time::Instant::now();
    let out = loop {
        match child.try_wait() {
            Ok(Some(_)) => break child.wait_with_output().map_err(|e| e.to_string())?,
            Ok(None) => {
                if start_t.elapsed() > std::time::Duration::from_secs(2400) {
                    let _ = child.kill();
                    let _ = child.wait();
                    return Err("child timed out".into());
                }
                std::thread::sleep(std::time::Duration::from_millis(5));
            }
            Err(e) => return Err(e.to_string()),
        }
    };
    let _ = std::fs::remove_dir_all(work);
    let _ = std::fs::remove_file(&job);
    let text = String::from_utf8_lossy(&out.stdout);
    for l in text.lines() {
        if let Some(j) = l.strip_prefix("@@RESULT ") {
            return serde_json::from_str(j).map_err(|e| e.to_string());
        }
    }
    Err(format!("child produced no result (status {:?})", out.status))
}

// ---------------------------------------------------------------------------------------------

fn histories(depth: usize, alphabet: &[usize]) -> Vec<(Vec<usize>, Vec<(usize, Texts)>)> {
    // BFS over histories; paths are NOT merged by text (caches are path-dependent)
    let mut out = vec![];
    let mut layer: Vec<(Vec<usize>, Vec<(usize, Texts)>, Texts)> = vec![(vec![], vec![], initial())];
    for d in 0..depth {
        let mut next = vec![];
        for (h, steps, cur) in &layer {
            for &e in alphabet {
                if let Some((f, n)) = apply(cur, e, d) {
                    let mut h2 = h.clone();
                    h2.push(e);
                    let mut s2 = steps.clone();
                    s2.push((f, n.clone()));
                    out.push((h2.clone(), s2.clone()));
                    next.push((h2, s2, n));
                }
            }
        }
        layer = next;
    }
    out
}

fn run(a: &vhcore::Args) -> i32 {
    let mut rep = vhcore::Reporter::from_args(a, "model_checking");
    let thorough = a.tier == vhcore::Tier::Thorough;
    let work = vhcore::work_dir("C26");
    let alphabet: Vec<usize> = (0..EDITS.len()).collect();
    // quick: every history of <= 2 edits over the whole alphabet; thorough adds every history of
    // <= 3 edits over the 12 edits that keep the module graph fixed (16^3 is out of reach here)
    let depth = if thorough { 3 } else { 2 };
    let mut all = histories(2, &alphabet);
    if thorough {
        let fixed_graph: Vec<usize> = (0..12).collect();
        for h in histories(3, &fixed_graph) {
            if !all.iter().any(|(h2, _)| *h2 == h.0) {
                all.push(h);
            }
        }
    }
    // only maximal histories need to run (every prefix is observed on the way); a history that
    // cannot be extended at depth < max is maximal too
    let maximal: Vec<&(Vec<usize>, Vec<(usize, Texts)>)> = all
        .iter()
        .filter(|(h, _)| !all.iter().any(|(h2, _)| h2.len() == h.len() + 1 && h2.starts_with(h)))
        .collect();
    // fresh references, memoised by text triple
    let mut distinct: BTreeSet<Texts> = BTreeSet::new();
    distinct.insert(initial());
    for (_, steps) in &all {
        for (_, t) in steps {
            distinct.insert(t.clone());
        }
    }
    let distinct: Vec<Texts> = distinct.into_iter().collect();
    eprintln!("[C26] {} histories ({} maximal), {} distinct text states", all.len(), maximal.len(), distinct.len());
    let fresh: Vec<Result<HistOut, String>> = vhcore::par_map_idx(distinct.len(), a.jobs, |i| run_child(&work.join(format!("f{i}")), &distinct[i], &[]));
    let mut fresh_obs: BTreeMap<Texts, Obs> = BTreeMap::new();
    for (t, r) in distinct.iter().zip(fresh) {
        match r {
            Ok(o) if o.error.is_none() && o.pending.is_empty() && o.obs.len() == 1 => {
                fresh_obs.insert(t.clone(), o.obs[0].clone());
            }
            Ok(o) => vhcore::machinery_failure(&format!("fresh compile did not reach quiescence cleanly: error={:?} pending={:?} obs={}", o.error, o.pending, o.obs.len())),
            Err(e) => vhcore::machinery_failure(&format!("fresh compile child failed: {e}")),
        }
    }
    let results: Vec<Result<HistOut, String>> = vhcore::par_map_idx(maximal.len(), a.jobs, |i| {
        let (_, steps) = maximal[i];
        let edits: Vec<(usize, String)> = steps.iter().map(|(f, t)| (*f, text_of(t, *f).clone())).collect();
        run_child(&work.join(format!("h{i}")), &initial(), &edits)
    });
    let mut transitions = 0u64;
    let mut states = vhcore::Distinct::default();
    let mut outcomes = vhcore::Distinct::default();
    let mut checked_prefixes: BTreeSet<Vec<usize>> = BTreeSet::new();
    for ((h, steps), r) in maximal.iter().map(|x| (&x.0, &x.1)).zip(results) {
        let o = match r {
            Ok(o) => o,
            Err(e) => vhcore::machinery_failure(&format!("history {:?}: {e}", h)),
        };
        if o.error.is_some() || !o.pending.is_empty() || o.obs.len() != steps.len() + 1 {
            // a hang / stale compile under the fixed race-free schedule would be C24's finding
            vhcore::machinery_failure(&format!("history {:?} did not run cleanly under the fixed schedule: error={:?} pending={:?} observations={}", h, o.error, o.pending, o.obs.len()));
        }
        for k in 0..=steps.len() {
            let prefix: Vec<usize> = h[..k].to_vec();
            let texts = if k == 0 { initial() } else { steps[k - 1].1.clone() };
            transitions += 1;
            states.add(&(prefix.clone(), &o.obs[k]));
            outcomes.add(&o.obs[k]);
            if !checked_prefixes.insert(prefix.clone()) {
                continue;
            }
            let want = &fresh_obs[&texts];
            if &o.obs[k] != want {
                let last = if k == 0 { "open".to_string() } else { EDITS[h[k - 1]].to_string() };
                let edited_file = if k == 0 { "lib.sw" } else { file_name(steps[k - 1].0) };
                for (key, what, detail) in classify(&o.obs[k], want, edited_file) {
                    rep.violation(
                        &key,
                        &format!("after edits {:?} (last: {last}) the incremental server differs from a fresh compile: {what}", h[..k].iter().map(|e| EDITS[*e]).collect::<Vec<_>>()),
                        json!({"history": h[..k].iter().map(|e| EDITS[*e]).collect::<Vec<_>>(), "edit_ids": &h[..k], "texts": texts, "difference": detail}),
                    );
                }
            }
        }
    }
    if outcomes.len() < 2 {
        vhcore::machinery_failure("vacuous: fewer than 2 distinct observations");
    }
    rep.set("evaluations", checked_prefixes.len() as u64);
    rep.set("states", states.len() as u64);
    rep.set("transitions", transitions);
    rep.set("traces_validated_against_impl", maximal.len() as u64);
    rep.set("distinct_nontrivial", outcomes.len() as u64);
    rep.set("histories", all.len() as u64);
    rep.set("distinct_text_states", distinct.len() as u64);
    rep.set("depth", depth as u64);
    rep.set("rule", "all edit histories of <= 2 edits over the 16-edit alphabet, thorough: plus all of <= 3 edits over the 12 fixed-graph edits (incl. attaching/detaching a module after the first compilation and editing it) (inapplicable edits skipped), each run on the real server under one fixed race-free schedule; after every edit: (diagnostics per file with range/severity/message, token-map keys with kind) == those of a fresh server opened on the same texts; states = distinct (history, observation); distinct_nontrivial = distinct observations");
    rep.set("exhaustive", true);
    for (h, _) in all.iter().step_by((all.len() / 6).max(1)) {
        rep.sample(json!({"history": h.iter().map(|e| EDITS[*e]).collect::<Vec<_>>()}));
    }
    rep.assume("driven on one fixed schedule of the H5 points (events only at quiescence); schedule-dependent behaviour is C24's subject");
    rep.assume("project without std (compiles in milliseconds); garbage collection enabled (default configuration: the edited module is collected before every recompilation)");
    rep.finish()
}

fn replay(a: &vhcore::Args) -> i32 {
    let path = a.replay.clone().unwrap_or_else(|| vhcore::machinery_failure("replay needs a file"));
    let v: serde_json::Value = serde_json::from_str(&std::fs::read_to_string(path).unwrap()).unwrap();
    let ids: Vec<usize> = v["replay"]["edit_ids"].as_array().unwrap().iter().map(|x| x.as_u64().unwrap() as usize).collect();
    let work = vhcore::work_dir("C26-replay");
    let mut cur = initial();
    let mut edits = vec![];
    for (d, e) in ids.iter().enumerate() {
        let (f, n) = apply(&cur, *e, d).unwrap_or_else(|| vhcore::machinery_failure("edit does not apply"));
        edits.push((f, text_of(&n, f).clone()));
        cur = n;
    }
    let inc = run_child(&work.join("h"), &initial(), &edits).unwrap_or_else(|e| vhcore::machinery_failure(&e));
    let fresh = run_child(&work.join("f"), &cur, &[]).unwrap_or_else(|e| vhcore::machinery_failure(&e));
    let (Some(i), Some(f)) = (inc.obs.last(), fresh.obs.last()) else {
        println!("no observation");
        return 2;
    };
    if i == f {
        println!("incremental == fresh now");
        0
    } else {
        for d in i.diagnostics.symmetric_difference(&f.diagnostics) {
            println!("  diag Δ {d}");
        }
        for d in i.tokens.symmetric_difference(&f.tokens).take(20) {
            println!("  token Δ {d}");
        }
        println!("STILL VIOLATES");
        1
    }
}

/// Classify the differences between the incremental and the fresh observation: one class per
/// failure shape (what kind of fact differs, on which side, in the edited file or another one),
/// never per history.
fn classify(inc: &Obs, fresh: &Obs, edited_file: &str) -> Vec<(String, String, serde_json::Value)> {
    let mut out: Vec<(String, String, serde_json::Value)> = vec![];
    let mut push = |key: String, what: String, detail: serde_json::Value| {
        if !out.iter().any(|(k, _, _)| *k == key) {
            out.push((key, what, detail));
        }
    };
    let rel = |line: &str| if line.split_whitespace().nth(1).map(|f| f == edited_file).unwrap_or(false) || line.starts_with(edited_file) { "edited-file" } else { "other-file" };
    // diagnostics: "<sev> <file> <range> <message>"
    for d in inc.diagnostics.difference(&fresh.diagnostics) {
        let sev = d.split_whitespace().next().unwrap_or("");
        let msg: String = d.splitn(4, ' ').nth(3).unwrap_or("").chars().take(40).collect();
        push(format!("C26|diagnostic-only-incremental|{sev}|{}|{}", rel(d), norm_digits(&msg)), format!("diagnostic only in the incremental server: {d}"), json!({"incremental_only": d}));
    }
    for d in fresh.diagnostics.difference(&inc.diagnostics) {
        let sev = d.split_whitespace().next().unwrap_or("");
        let msg: String = d.splitn(4, ' ').nth(3).unwrap_or("").chars().take(40).collect();
        push(format!("C26|diagnostic-only-fresh|{sev}|{}|{}", rel(d), norm_digits(&msg)), format!("diagnostic only in the fresh server: {d}"), json!({"fresh_only": d}));
    }
    // tokens: "<file> <range> <name> <kind>"; pair up by (file, range, name)
    let split = |t: &str| -> (String, String) {
        let mut parts: Vec<&str> = t.rsplitn(2, ' ').collect();
        parts.reverse();
        (parts.first().unwrap_or(&"").to_string(), parts.get(1).unwrap_or(&"").to_string())
    };
    let inc_only: Vec<(String, String)> = inc.tokens.difference(&fresh.tokens).map(|t| split(t)).collect();
    let fresh_only: Vec<(String, String)> = fresh.tokens.difference(&inc.tokens).map(|t| split(t)).collect();
    for (loc, kind) in &inc_only {
        let file = loc.split_whitespace().next().unwrap_or("");
        let r = if file == edited_file { "edited-file" } else { "other-file" };
        match fresh_only.iter().find(|(l, _)| l == loc) {
            Some((_, fk)) => push(
                format!("C26|token-kind-differs|incremental={kind}|fresh={fk}|{r}"),
                format!("token `{loc}` has kind {kind} in the incremental server and {fk} in the fresh one"),
                json!({"token": loc, "incremental_kind": kind, "fresh_kind": fk}),
            ),
            None => push(
                format!("C26|token-only-incremental|{kind}|{r}"),
                format!("token `{loc}` ({kind}) exists only in the incremental server"),
                json!({"token": loc, "kind": kind}),
            ),
        }
    }
    for (loc, kind) in &fresh_only {
        if inc_only.iter().any(|(l, _)| l == loc) {
            continue;
        }
        let file = loc.split_whitespace().next().unwrap_or("");
        let r = if file == edited_file { "edited-file" } else { "other-file" };
        push(
            format!("C26|token-only-fresh|{kind}|{r}"),
            format!("token `{loc}` ({kind}) exists only in the fresh server"),
            json!({"token": loc, "kind": kind}),
        );
    }
    out
}

fn norm_digits(s: &str) -> String {
    s.chars().map(|c| if c.is_ascii_digit() { '#' } else { c }).collect()
}

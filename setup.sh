#!/bin/bash
# Builds the whole harness (all binaries) offline from files on disk.
set -eu
export CARGO_NET_OFFLINE=true
cd /verif/harness
cargo build --release --offline 2>&1 | tail -3
[ -f /verif/tools/getrandom_shim.c ] && gcc -shared -fPIC -O2 -o /verif/target/getrandom_shim.so /verif/tools/getrandom_shim.c || true

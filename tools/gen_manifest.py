#!/usr/bin/env python3
"""Regenerates /verif/MANIFEST.json. A property is claimed iff its id is listed in CLAIMED below
(kept in sync by hand with the checks that are built, pass on the unchanged tree and have
evidence); every other property is listed under not_applicable with its reason."""
import json, subprocess, sys

P = {
 "C01": ("exploration", "E-enum", "bounded-exhaustive program enumeration vs reference interpreter",
   "Every program of the declared spaces S1 (all widths x operators x boundary operand pairs), casts, S2 (all statement lists up to a node bound on 16 inputs), S3 (all type trees up to a size x every leaf path, enums, arrays), S4 (all body pairs / call DAGs / generic instantiations), the register-pressure ladder and the e2e 'run' corpus (S5, maintainers' expected results) is compiled by the real forc path in debug and release, run on the real FuelVM and compared with a reference interpreter written in the harness. Exhaustive within the declared bounds, silent outside them.",
   "Reference interpreter (vh-comp/src/gen.rs) states the documented semantics; Mode F (std namespace cached per worker) is bound to the plain forc path by a per-run artefact-equality self-check; values outside the boundary alphabets and larger programs are not covered."),
 "C02": ("exploration", "E-enum", "bounded-exhaustive differential execution (debug vs release)",
   "Every program of the C01 spaces, their literal-operand variants and the S5 e2e corpus is built in debug and release and must produce identical log ids+payloads, revert status and code. No reference model involved, so it also covers programs outside the interpreter's fragment.",
   "Gas, bytecode size and backtrace metadata are not compared."),
 "C03": ("exploration", "E-enum", "bounded-exhaustive pipeline-variant enumeration, differential execution",
   "For every batch of the compact corpus, the O0 pipeline is compared with every variant obtained by inserting each of the 19 registered transforms before the Fuel lowering passes, and with the whole O1 pipeline (thorough: every pre-lowering position, all ordered pairs, O1 with each single pass removed, which names the culprit), through cfg-guarded hook H1a; every test entry must behave as in the baseline and the backend must accept the result.",
   "Variant-vs-baseline on the same typed program; a bug shared by all pipelines is C01's."),
 "C04": ("exploration", "E-enum", "bounded-exhaustive pass-sequence enumeration with the IR verifier as oracle",
   "Hook H1b runs the IR verifier with SSA dominance checking after EVERY pass of the default pipelines and of all pass sequences of length <= 2 (thorough <= 3 on one batch) over the 19 registered transforms, on every batch of the compact corpus; a pass that panics on verified IR is a violation.",
   "A verifier error after pass P on IR that verified before P is attributed to P; the passes' `modified` flags are not checked."),
 "C05": ("exploration", "E-enum", "bounded-exhaustive stage enumeration, print/parse/print + in-pipeline substitution",
   "At every stage of the real debug and release pipelines of every corpus batch and of three hand-written packages the IR is printed, re-parsed (the parser verifies), re-printed and compared up to a per-function bijective renaming of value names; a second build substitutes the re-parsed module at every stage and must behave identically.",
   "Value names are arena keys and cannot round-trip literally; that is why identity is up to renaming."),
 "C06": ("exploration", "E-enum", "bounded-exhaustive operand enumeration in compile-time contexts vs run time",
   "Every S1 expression is evaluated in seven compile-time contexts (const, configurable, const via five const-evaluable function shapes) and, in the same test entry, at run time on opaque operands; a compiled context must yield exactly the run-time value and the compiler must never have substituted a value for a reverting expression; optimiser folding: the same expressions with literal operands in a function body, release build, against the reference value (shift amounts include the 32-bit truncation boundary).",
   "A context that rejects an expression is not a violation (counted in the evidence)."),
 "C07": ("exploration", "E-enum", "bounded-exhaustive differential execution (asm optimiser on vs off)",
   "Every corpus program plus shapes aimed at the abstract-instruction optimiser (incl. every inline-asm sequence of <= 3 pointer-arithmetic/load/store instructions over a 16-word buffer, with a word-array reference machine) is built with AbstractInstructionSet::optimize enabled and skipped (hook H2) in both profiles and must behave identically.",
   "The un-optimised stream is the reference."),
 "C08": ("exploration", "E-enum", "independent post-allocation checker on every compiled function + pressure ladder",
   "Hook H3 recomputes liveness over the final virtual-register instruction list of every function and checks that no definition lands in the machine register of a different live virtual register (MOVE copies excepted) and that spill slots are distinct; the ladder (6 shapes x k live values, k crossing the allocatable registers) is also compared with the reference result on the VM; a contract family puts k live values across the only two-output opcode (SRW).",
   "Trusted: per-opcode def/use/successor tables (covered by the VM comparison)."),
 "C09": ("exploration", "E-enum", "bounded-exhaustive type-tree x value enumeration vs reference ABI encoder", "", ""),
 "C10": ("exploration", "E-enum", "bounded-exhaustive type-tree enumeration, three encodings + invalid byte patterns", "", ""),
 "C11": ("exploration", "E-enum", "bounded-exhaustive ABI (name set x signature x fallback) enumeration, in-VM calls", "", ""),
 "C12": ("exploration", "E-enum", "bounded-exhaustive storage declaration enumeration, deployed slots read back in-VM", "", ""),
 "C13": ("exploration", "E-enum", "bounded-exhaustive configurable-set x replacement-value enumeration, patched bytecode runs", "", ""),
 "C14": ("exploration", "E-enum", "bounded-exhaustive pattern-matrix enumeration vs brute force over the value space", "", ""),
 "C15": ("exploration", "E-enum", "bounded enumeration of environment answers (forced hash seeds x ASLR x thread counts), fresh processes", "", ""),
 "C16": ("exploration", "E-text", "bounded-exhaustive string / token-sequence enumeration + first-order corpus deviations",
   "All strings up to length 5 (thorough 6) over 26 lexer-relevant symbols, all token sequences up to length 4/5 over 30- and 90-token alphabets in 4 contexts, char/string literal bodies over escape symbols, and every single-token deviation / truncation of the corpus files go through the real lex / lex_commented / parse_file under catch_unwind and a hang watchdog; every diagnostic span is checked to lie in bounds on char boundaries.",
   "Inputs needing two coordinated edits far apart are outside the bound."),
 "C17": ("exploration", "E-enum", "bounded-exhaustive first-order semantic mutation of base programs + scale ladder",
   "Every single-edit mutant of 6 (thorough 49) base programs under 11 token-level mutation families (operators, literals, types, identifiers in scope, deletions, duplications, swaps, mutability, ...), 8 hand-written seeds and 25 scale-ladder families (nesting depth, arity, constant count, ...) is compiled by the real forc path in debug, survivors also in release; a build must end in success or diagnostics within the hang threshold - a panic, an internal compiler error, an abort or a timeout is a violation, keyed by failure location and mutation family and confirmed alone through the plain forc path.",
   "Two coordinated edits and programs beyond the ladder ceilings are outside the bound; identifier scope is approximated (recorded as an assumption)."),
 "C18": ("exploration", "E-text", "corpus + bounded-exhaustive item grammar + every comment/whitespace insertion, format twice", "", ""),
 "C19": ("exploration", "E-text", "same inputs, token/comment-sequence comparator", "", ""),
 "C20": ("model_checking", "E-bfs", "explicit enumeration of package graphs, every transition through the real lock writer/reader", "", ""),
 "C21": ("exploration", "E-text", "bounded-exhaustive malformed source strings / dependency lines through the real loader", "", ""),
 "C22": ("model_checking", "E-bfs", "explicit enumeration of all digraphs on <= 4 (thorough: 5) nodes, thorough also all labelled DAGs on 6 nodes each with every cycle-closing back edge, through the real compilation_order", "", ""),
 "C23": ("model_checking", "E-bfs", "explicit-state BFS over edit histories, every transition through the real document code vs UTF-16 client model",
   "BFS over all documents of <= 3 symbols over {a, e-acute, astral, LF, CRLF} and ALL edits (full replacement by each document; incremental edits at every UTF-16 position pair incl. past line end, past last line, start > end, inside a surrogate pair, 5 insert texts), histories <= 3 (thorough 5), states deduplicated by (client text, server text); every transition calls the real Documents::update_text_document and is compared with a Vec<u16> reference client.",
   "Oracle decisions are quoted from LSP 3.17; where the spec is silent both readings are accepted."),
 "C24": ("model_checking", "E-sched", "stateless exploration of all interleavings of the real server's task and worker threads within a preemption bound",
   "A real ServerState (real worker thread, channel, Notify, atomics, real parse_project) with the real handlers polled cooperatively on one task thread; hook H5 points serialise the two threads; all interleavings with <= 1 (thorough 2) preemptions and every poll/issue order of handler futures, for every client script of <= 2 (3) events after open; oracle: no handler waits forever at quiescence, the last completed compilation started after the last edit was written.",
   "Sequential consistency at the granularity of one H5 point; wait_for_parsing's two flag reads form one step."),
 "C25": ("model_checking", "E-sched", "stateless exploration of all interleavings and crash points of real processes at file-system step points",
   "Two or three REAL processes running the real PidFileLocking code share a harness-owned HOME; hook H4 step points before every file-system operation let the scheduler serialise them; all interleavings within per-scenario preemption bounds (unbounded for the 2-process scenarios) and every crash point (SIGKILL + reap) are explored; oracles: every completed is_file_dirty() against the owners' lock windows, and after EVERY step the state invariant 'an owner inside its lock window => the lock directory holds a flag naming a live process'; scenarios include two concurrent lockers and start states with the flag of a dead former owner.",
   "Process crash model (completed operations persist), not power loss."),
 "C26": ("model_checking", "E-bfs", "explicit enumeration of edit histories on the real server under one fixed schedule vs fresh compile",
   "All edit histories of <= 2 edits over a 16-edit alphabet (incl. attaching/detaching a module after the first compilation and editing it; thorough adds all histories of <= 3 edits over the 12 fixed-graph edits) on a four-file project are driven through the real didOpen/didChange handlers and compilation thread on the controlled scheduler with one fixed race-free schedule; after every edit, diagnostics and token map must equal those of a fresh server opened on the same texts.",
   "Std-less project; one schedule (schedule dependence is C24's subject)."),
 "C27": ("model_checking", "E-bfs", "explicit enumeration of operation sequences executed in-VM vs Rust reference models", "", ""),
 "C28": ("model_checking", "E-bfs", "explicit enumeration of storage operation histories executed in-VM vs reference models", "", ""),
 "C29": ("exploration", "E-enum", "bounded-exhaustive test-suite enumeration x runner counts x filters through forc-test", "", ""),
 "C30": ("fault_enumeration", "E-fault", "every mutating syscall of the fetch as kill point and as error point (strace injection), then recovery build", "", ""),
}

CLAIMED = []   # filled below from the command line or the default list
DEFAULT_CLAIMED = sys.argv[1:] if len(sys.argv) > 1 else []

def main():
    ids = [json.loads(l)["id"] for l in open("/verif/properties.jsonl")]
    claimed = [i for i in ids if i in DEFAULT_CLAIMED]
    hooks = subprocess.run(["git", "-C", "/repo", "log", "--format=%H %s"], capture_output=True, text=True).stdout.splitlines()
    hook_commits = [l.split()[0] for l in hooks if " verif hook" in l]
    checks = []
    for i in claimed:
        level, engine, technique, text, note = P[i]
        checks.append({
            "property_id": i,
            "quick_cmd": f"/verif/check {i} quick",
            "thorough_cmd": f"/verif/check {i} thorough",
            "evidence_file": f"/verif/evidence/{i}.json",
            "replay_cmd_template": f"/verif/check replay {i} {{path}}",
            "engine": engine,
            "level_claimed": {"category": level, "text": text or technique, "design_ref": f"DESIGN.md §4 {i}"},
            "level_note": note or "see DESIGN.md",
            "technique": technique,
        })
    na = [{"property_id": i, "reason": "check not finished within this session (see DESIGN.md §9 status)"} for i in ids if i not in claimed]
    m = {
        "version": 1,
        "setup_cmd": "/verif/setup.sh",
        "hooks": {
            "guard": "--cfg fuellabs_sway_verif",
            "enable": "/verif/harness/.cargo/config.toml sets build.rustflags = [\"--cfg\", \"fuellabs_sway_verif\"] for the harness workspace, whose path dependencies are the crates of /repo (built into /verif/target); /repo's own builds never see the flag",
            "baseline_off_cmd": "/verif/tools/baseline_off.sh",
            "source_commits": hook_commits,
            "add_only": True,
        },
        "engines": [
            {"name": "E-enum", "path": "/verif/harness/vh-comp", "serves_properties": [i for i in claimed if P[i][1] == "E-enum"], "kind_free_text": "bounded-exhaustive program/value generation -> real forc build path -> real FuelVM -> reference model / differential comparison"},
            {"name": "E-text", "path": "/verif/harness/vh-text", "serves_properties": [i for i in claimed if P[i][1] == "E-text"], "kind_free_text": "bounded-exhaustive strings / token sequences / first-order corpus deviations through the real lexer, parser, formatter, lock loader"},
            {"name": "E-bfs", "path": "/verif/harness/vh-pkg, /verif/harness/vh-lsp", "serves_properties": [i for i in claimed if P[i][1] == "E-bfs"], "kind_free_text": "explicit-state search in which every transition calls the real function; states hashed canonically"},
            {"name": "E-sched", "path": "/verif/harness/vhcore/src/sched.rs, /verif/harness/vh-lsp/src/lspsched.rs, /verif/harness/vh-pkg/src/bin/c25.rs", "serves_properties": [i for i in claimed if P[i][1] == "E-sched"], "kind_free_text": "stateless DFS over interleavings of real threads / processes serialised at cfg-guarded hook points, iterative preemption and crash bounding"},
            {"name": "E-fault", "path": "/verif/harness/vh-pkg/src/bin/c30.rs", "serves_properties": [i for i in claimed if P[i][1] == "E-fault"], "kind_free_text": "syscall-level crash/fault enumeration of a subprocess (strace injection) followed by a recovery run"},
        ],
        "checks": checks,
        "not_applicable": na,
        "notes": "Every check is `/verif/check <ID> <tier>`: it rebuilds the per-property harness binary against /repo's working tree (hooks on), runs it, writes /verif/evidence/<ID>.json and replay files under /verif/replays/<ID>/. Exit 0 = held (known findings from /verif/known_findings.json printed as KNOWN-FINDING lines), 1 = VIOLATION line printed, 2 = machinery failure.",
    }
    json.dump(m, open("/verif/MANIFEST.json", "w"), indent=1)
    print("claimed:", claimed)

main()

#!/bin/bash
# Scratch "lab": a git worktree of /repo plus a copy of the harness wired to it, with its own
# target dir, so seeded changes and candidate fixes can be checked without touching /repo.
#   lab.sh create <name>            worktree at /tmp/lab/<name>/repo (HEAD of /repo)
#   lab.sh sync <name>              re-copy /verif/harness + known_findings.json into the lab
#   lab.sh check <name> <ID> [tier] build in the lab and run the check against the lab worktree
#   lab.sh destroy <name>           remove worktree, build output, everything
set -eu
CMD="$1"; NAME="$2"; L=/tmp/lab/$NAME
sync_lab() {
  mkdir -p "$L/verif"
  rsync -a --delete --exclude target /verif/harness/ "$L/verif/harness/"
  sed -i "s#\"/repo/#\"$L/repo/#g" "$L/verif/harness/Cargo.toml"
  sed -i "s#target-dir = .*#target-dir = \"$L/target\"#" "$L/verif/harness/.cargo/config.toml"
  cp /verif/known_findings.json "$L/verif/" 2>/dev/null || true
  mkdir -p "$L/verif/tools"; cp -r /verif/tools/. "$L/verif/tools/" 2>/dev/null || true
}
case "$CMD" in
  create)
    mkdir -p "$L"
    git -C /repo worktree add --detach "$L/repo" HEAD >/dev/null
    sync_lab
    # seed the lab's target dir with the already compiled third-party crates (their fingerprints
    # do not depend on the workspace path), so that only the sway/forc/vh crates are rebuilt
    if [ -d /verif/target/release ] && [ ! -d "$L/target" ]; then
      mkdir -p "$L/target"
      rsync -a --exclude incremental --exclude 'c[0-9][0-9]' --exclude probe --exclude gendump /verif/target/ "$L/target/" 2>/dev/null || true
    fi
    echo "lab at $L (worktree $L/repo)";;
  sync) sync_lab;;
  check)
    ID="$3"; TIER="${4:-quick}"
    sync_lab
    case "$ID" in
      C16|C18|C19) BIN=vh-text ;;
      C20|C21|C22|C25|C30|C15) BIN=vh-pkg ;;
      C23|C24|C26) BIN=vh-lsp ;;
      *) BIN=vh-comp ;;
    esac
    cd "$L/verif/harness"
    B=$(echo "$ID" | tr 'A-Z' 'a-z')
    if ! CARGO_NET_OFFLINE=true cargo build --release --offline -p "$BIN" --bin "$B" >"$L/build.log" 2>&1; then
      echo "MACHINERY-FAILURE: lab build failed"; tail -30 "$L/build.log"; exit 2; fi
    VH_VERIF_ROOT="$L/verif" VH_REPO_ROOT="$L/repo" exec "$L/target/release/$B" check "$ID" --tier "$TIER";;
  destroy)
    git -C /repo worktree remove --force "$L/repo" 2>/dev/null || true
    rm -rf "$L"; git -C /repo worktree prune;;
  *) echo "unknown command"; exit 2;;
esac

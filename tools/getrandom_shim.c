/*
 * LD_PRELOAD shim for C15 (deterministic builds): makes every source of OS randomness that a Rust
 * process reaches through libc a pure function of the environment variable VERIF_SEED.
 *
 *   getrandom(2) wrapper, getentropy(3), and syscall(SYS_getrandom, …) (the `getrandom` crate 0.2
 *   calls the raw syscall through libc's variadic `syscall`) all return the byte stream
 *   splitmix64(VERIF_SEED) — the SAME stream on every call, so the bytes a thread obtains do not
 *   depend on the order in which threads ask (std's `RandomState` asks once per thread).
 *
 * When VERIF_SEED is not set the shim forwards to the kernel unchanged.
 * Every intercepted call is counted; with VERIF_SHIM_LOG=<path> the count is appended to that file
 * at exit (used by the harness to prove that the shim was actually consulted).
 *
 * Build: gcc -shared -fPIC -O2 -o getrandom_shim.so getrandom_shim.c -ldl
 */
#define _GNU_SOURCE
#include <errno.h>
#include <stdarg.h>
#include <stddef.h>
#include <stdint.h>
#include <stdio.h>
#include <stdlib.h>
#include <string.h>
#include <sys/syscall.h>
#include <sys/types.h>
#include <unistd.h>

static volatile long shim_calls = 0;

static long raw_syscall6(long n, long a, long b, long c, long d, long e, long f) {
#if defined(__x86_64__)
    long ret;
    register long r10 __asm__("r10") = d;
    register long r8 __asm__("r8") = e;
    register long r9 __asm__("r9") = f;
    __asm__ volatile("syscall"
                     : "=a"(ret)
                     : "a"(n), "D"(a), "S"(b), "d"(c), "r"(r10), "r"(r8), "r"(r9)
                     : "rcx", "r11", "memory");
    return ret;
#elif defined(__aarch64__)
    register long x8 __asm__("x8") = n;
    register long x0 __asm__("x0") = a;
    register long x1 __asm__("x1") = b;
    register long x2 __asm__("x2") = c;
    register long x3 __asm__("x3") = d;
    register long x4 __asm__("x4") = e;
    register long x5 __asm__("x5") = f;
    __asm__ volatile("svc 0" : "+r"(x0) : "r"(x8), "r"(x1), "r"(x2), "r"(x3), "r"(x4), "r"(x5) : "memory");
    return x0;
#else
#error "unsupported architecture"
#endif
}

static int seed_of_env(uint64_t *seed) {
    const char *s = getenv("VERIF_SEED");
    if (!s || !*s) return 0;
    *seed = strtoull(s, NULL, 10);
    return 1;
}

static void fill(unsigned char *buf, size_t n, uint64_t seed) {
    /* splitmix64 stream, restarted on every call */
    uint64_t x = seed * 0x9E3779B97F4A7C15ull + 0xD1B54A32D192ED03ull;
    size_t i = 0;
    while (i < n) {
        x += 0x9E3779B97F4A7C15ull;
        uint64_t z = x;
        z = (z ^ (z >> 30)) * 0xBF58476D1CE4E5B9ull;
        z = (z ^ (z >> 27)) * 0x94D049BB133111EBull;
        z = z ^ (z >> 31);
        for (int k = 0; k < 8 && i < n; k++, i++) buf[i] = (unsigned char)(z >> (8 * k));
    }
    __sync_fetch_and_add(&shim_calls, 1);
}

ssize_t getrandom(void *buf, size_t buflen, unsigned int flags) {
    uint64_t seed;
    if (seed_of_env(&seed)) {
        fill((unsigned char *)buf, buflen, seed);
        return (ssize_t)buflen;
    }
    long r = raw_syscall6(SYS_getrandom, (long)buf, (long)buflen, (long)flags, 0, 0, 0);
    if (r < 0 && r > -4096) {
        errno = (int)-r;
        return -1;
    }
    return r;
}

int getentropy(void *buf, size_t buflen) {
    if (buflen > 256) {
        errno = EIO;
        return -1;
    }
    return getrandom(buf, buflen, 0) == (ssize_t)buflen ? 0 : -1;
}

long syscall(long n, ...) {
    va_list ap;
    va_start(ap, n);
    long a = va_arg(ap, long), b = va_arg(ap, long), c = va_arg(ap, long);
    long d = va_arg(ap, long), e = va_arg(ap, long), f = va_arg(ap, long);
    va_end(ap);
    if (n == SYS_getrandom) {
        uint64_t seed;
        if (seed_of_env(&seed)) {
            fill((unsigned char *)a, (size_t)b, seed);
            return b;
        }
    }
    long r = raw_syscall6(n, a, b, c, d, e, f);
    if (r < 0 && r > -4096) {
        errno = (int)-r;
        return -1;
    }
    return r;
}

__attribute__((destructor)) static void shim_report(void) {
    const char *p = getenv("VERIF_SHIM_LOG");
    if (!p || !*p) return;
    FILE *fp = fopen(p, "a");
    if (!fp) return;
    fprintf(fp, "%ld\n", shim_calls);
    fclose(fp);
}

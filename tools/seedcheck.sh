#!/bin/bash
# seedcheck.sh <lab> <seed-name> <patch> <ID>...  — apply a seeded change in a lab worktree, run the
# listed checks (quick) against it, revert. Outputs: /verif/work/seed_<seed>_<ID>.out
set -u
LAB="$1"; SEED="$2"; PATCH="$3"; shift 3
R=/tmp/lab/$LAB/repo
git -C "$R" checkout -q -- . || exit 2
git -C "$R" apply "$PATCH" || { echo "patch does not apply"; exit 2; }
for id in "$@"; do
  echo "=== $SEED $id $(date)" >> /verif/work/seedcheck.log
  /verif/tools/lab.sh check "$LAB" "$id" quick > /verif/work/seed_${SEED}_${id}.out 2>&1
  echo "exit=$?" >> /verif/work/seedcheck.log
  grep -E "VIOLATION|^  key|^OK |^FAIL |MACHINERY" /verif/work/seed_${SEED}_${id}.out | cut -c1-300 | head -8 >> /verif/work/seedcheck.log
done
git -C "$R" checkout -q -- .
echo "=== $SEED done $(date)" >> /verif/work/seedcheck.log

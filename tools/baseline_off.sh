#!/bin/bash
# Runs the repository's pinned baseline suite with the verification guard OFF
# (no --cfg fuellabs_sway_verif anywhere: plain cargo in /repo, /repo's own target dir).
set -u
unset RUSTFLAGS
export CARGO_NET_OFFLINE=true
cd /repo || exit 2
if [ -f /w/lib/nextest.toml ] && cargo nextest --version >/dev/null 2>&1; then
  exec cargo nextest run --workspace --no-fail-fast --tool-config-file pb:/w/lib/nextest.toml --profile pb --test-threads 8 --offline
else
  exec cargo test --workspace --no-fail-fast --offline
fi
